#!/bin/bash
# Build the verification environment offline: overlay venv on top of /venv with
# crosshair-tool + z3-solver from the local wheelhouse, /repo/src on the path
# (so the *current working tree* is what gets executed), and a pure-Python copy
# of pydantic (sources shipped next to the compiled .so files) for harnesses
# that need values to stay symbolic through validation.
set -euo pipefail
cd "$(dirname "$0")"
V=/verif/.venv
exec 9>/verif/.setup.lock
flock 9
if [ ! -x "$V/bin/python" ] || ! "$V/bin/python" -c "import crosshair, z3" 2>/dev/null; then
  rm -rf "$V"
  /venv/bin/python -m venv "$V"
  SP=$("$V/bin/python" -c "import sysconfig; print(sysconfig.get_paths()['purelib'])")
  printf '/venv/lib/python3.12/site-packages\n/repo/src\n' > "$SP/vt_overlay.pth"
  PIP_NO_INDEX=1 "$V/bin/pip" install -q --no-index --find-links /opt/veriftools/wheels crosshair-tool z3-solver >/dev/null
fi
# pure-python pydantic (only *.py files; first on sys.path when requested by a harness)
if [ ! -f "$V/purepyd/pydantic/__init__.py" ]; then
  mkdir -p "$V/purepyd"
  rsync -a --include='*/' --include='*.py' --exclude='*' /venv/lib/python3.12/site-packages/pydantic "$V/purepyd/"
fi
"$V/bin/python" - <<'PY'
import crosshair, z3
print("setup ok: crosshair", getattr(crosshair, "__version__", "?"), "z3", z3.get_version_string())
PY
