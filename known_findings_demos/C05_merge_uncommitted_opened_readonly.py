"""C05: merging must be refused while there are uncommitted changes, and the merged
container must identify a state whose follow-up patches give the same result as on the
source.  An incomplete (never committed) patch container on disk is such an uncommitted
change -- but a record opened read-only merges it anyway.
"""
import numpy as np; np.cumproduct = np.cumprod
import shutil, tempfile
from pathlib import Path
from metador_core.ih5.record import IH5Record, IH5UserBlock

d = Path(tempfile.mkdtemp(prefix="demo2_"))
try:
    r = IH5Record(d / "rec", "w")
    r["a"] = 1
    r.commit_patch()
    r.create_patch()
    r["b"] = 2
    # sanity: with the patch open for writing the merge is refused
    try:
        r.merge_files(d / "m0")
        raise AssertionError("merge with open writable patch was not refused")
    except ValueError:
        pass
    r.close(commit=False)  # patch rec.p1.ih5 stays uncommitted (no hashsum)
    assert IH5UserBlock.load(d / "rec.p1.ih5").hdf5_hashsum is None

    ro = IH5Record(d / "rec", "r")  # read-only view incl. the uncommitted patch
    assert ro.ih5_meta[-1].hdf5_hashsum is None
    refused = False
    try:
        merged = ro.merge_files(d / "mrg")
    except ValueError:
        refused = True
    ro.close()

    if not refused:
        # show the consequence: the merged container claims to be patch state
        # <patch_uuid of rec.p1> -- but that state is not final yet.
        rw = IH5Record(d / "rec", "r+")  # complete the patch
        rw["c"] = 3
        rw.commit_patch()
        state = rw.ih5_meta[-1].patch_uuid
        src_paths = set(rw.keys())
        rw.close()
        mub = IH5UserBlock.load(merged)
        with IH5Record(d / "mrg", "r") as m:
            mrg_paths = set(m.keys())
        print("source  state", state, sorted(src_paths))
        print("merged  state", mub.patch_uuid, sorted(mrg_paths))
    assert refused, "merge of a record with an uncommitted patch was not refused"
finally:
    shutil.rmtree(d, ignore_errors=True)
print("OK")
