"""C06: IH5 driver - copy with a *group object that is the root* as destination.

mc.copy(src, mc, name="c") (or mc["/"]) builds the target path "//c". With IH5 the raw
copy succeeds, but the following lookup self["//c"] raises KeyError, so the copied
metadata objects are never registered in the TOC: the operation fails half-way and
leaves objects without TOC link which re-use the UUIDs of the originals.
(h5py.File: same call works and everything is registered.)
"""
import numpy as np; np.cumproduct = np.cumprod  # noqa
import tempfile
from pathlib import Path

import h5py
from metador_core.container import MetadorContainer
from metador_core.ih5.container import IH5Record
from metador_core.plugins import schemas

F = schemas.get("core.file", (0, 1, 0))
D = schemas.get("core.dir", (0, 1, 0))


def toc_state(mc):
    """(objects, links): objects = {path: uuid} found at nodes, links = {uuid: target}"""
    raw = mc.__wrapped__
    objs, links = {}, {}

    def visit(name, node):
        segs = ("/" + name).split("/")
        if len(segs) >= 2 and segs[-2].startswith("metador_meta_") and "=" in segs[-1]:
            objs["/" + name] = segs[-1].split("=")[1]
        if name.startswith("metador_container/links/") and len(segs) == 5:
            links[segs[-1]] = node[()].decode("utf-8")

    raw.visititems(visit)
    return objs, links


def scenario(mc):
    mc.create_group("g")
    mc["g/d"] = 1
    mc["g"].meta["core.dir"] = D(name="x")
    mc["g/d"].meta["core.file"] = F(
        filename="a.txt", encodingFormat="text/plain", contentSize=3, sha256="ab" * 32
    )
    err = None
    try:
        mc.copy("g", mc, name="c")  # destination: the root group object
    except Exception as e:  # noqa
        err = e
    objs, links = toc_state(mc)
    # C06: after every operation, successful or failed:
    uuids = list(objs.values())
    assert len(set(uuids)) == len(uuids), f"duplicate metadata object UUIDs: {objs}"
    assert {u: p for p, u in objs.items()} == links, f"TOC out of sync: {objs} vs {links}"
    # and if the copy exists it must carry its metadata and be found by queries
    if "c" in mc:
        assert err is None, f"copy raised {err!r} but was performed"
        assert sorted(n.name for n in mc.metador.query("core.file")) == ["/c/d", "/g/d"]


with tempfile.TemporaryDirectory() as tmp:
    with MetadorContainer(h5py.File(Path(tmp) / "c.h5", "w")) as mc:
        scenario(mc)
    with MetadorContainer(IH5Record(Path(tmp) / "rec", "w")) as mc:
        scenario(mc)
print("ok")
