"""C01/C09: membership test / get(default) below a dataset.

On h5py `"d/x" in f` is False and `f.get("d/x", default)` returns the default
when /d is a dataset. The IH5 overlay raises ValueError for both read-only
queries (also through MetadorContainer.get).
"""
import numpy as np; np.cumproduct = np.cumprod  # noqa
import sys, tempfile
from pathlib import Path
import h5py
from metador_core.ih5.record import IH5Record


def scenario(f):
    f["g/d"] = 1
    out = []
    for fn in (lambda: "g/d/x" in f, lambda: f.get("g/d/x", 5), lambda: "/g/d/x" in f["g"],
               lambda: f["g"].get("d/x/y")):
        try:
            out.append(fn())
        except Exception as e:  # noqa
            out.append("RAISED " + type(e).__name__)
    return out


with tempfile.TemporaryDirectory() as tmp:
    with h5py.File(Path(tmp) / "ref.h5", "w") as f:
        expected = scenario(f)
    with IH5Record(Path(tmp) / "rec", "w") as r:
        got = scenario(r)
    print("plain HDF5:", expected)
    print("IH5       :", got)
    assert expected == [False, 5, False, None]
    assert got == expected
sys.exit(0)
