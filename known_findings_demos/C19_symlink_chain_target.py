"""C19: retargeting an in-directory symlink must change the hashsum tree.

dir A:  c (file), b -> c, a -> b
dir B:  c (file), b -> c, a -> c        (single edit: symlink 'a' retargeted b -> c)

The two directories differ in the target of the symlink 'a', so their hashsum
trees must differ. Exit 0 if they differ, 1 (AssertionError) otherwise.
"""
import os
import sys
import tempfile
from pathlib import Path

from metador_core.util.diff import DirDiff
from metador_core.util.hashsums import dir_hashsums


def build(base: Path, a_target: str):
    base.mkdir()
    (base / "c").write_bytes(b"content")
    os.symlink("c", base / "b")
    os.symlink(a_target, base / "a")


def build2(base: Path, l_target: str):
    # same thing with a directory symlink in the middle of the target path
    (base / "sub").mkdir(parents=True)
    (base / "sub" / "f").write_bytes(b"content")
    os.symlink("sub", base / "ld")
    os.symlink(l_target, base / "l")


with tempfile.TemporaryDirectory() as tmp:
    tmp = Path(tmp)
    build(tmp / "A", "b")
    build(tmp / "B", "c")
    assert os.readlink(tmp / "A" / "a") != os.readlink(tmp / "B" / "a")
    ha, hb = dir_hashsums(tmp / "A"), dir_hashsums(tmp / "B")
    print("A:", ha)
    print("B:", hb)

    build2(tmp / "C", "ld/f")
    build2(tmp / "D", "sub/f")
    hc, hd = dir_hashsums(tmp / "C"), dir_hashsums(tmp / "D")
    print("C:", hc)
    print("D:", hd)

    ok = True
    if ha == hb or DirDiff.compare(ha, hb).is_empty:
        print("FAIL: retargeting a: b -> c (with b -> c) is invisible in the hashsum tree")
        ok = False
    if hc == hd or DirDiff.compare(hc, hd).is_empty:
        print("FAIL: retargeting l: ld/f -> sub/f (with ld -> sub) is invisible")
        ok = False
    assert ok, "different in-directory symlink targets, equal hashsum trees"
print("OK")
sys.exit(0)
