"""C08: reversed(group) lists the reserved metador_* entries (h5py driver)."""
import numpy as np; np.cumproduct = np.cumprod  # noqa
import os, tempfile
import h5py
from metador_core.container import MetadorContainer
from metador_core.ih5.container import IH5Record
from metador_core.plugins import schemas

F = schemas.get("core.file", (0, 1, 0))
D = schemas.get("core.dir", (0, 1, 0))


def mkf(name):
    return F(filename=name, encodingFormat="text/plain", contentSize=3, sha256="ab" * 32)


def new(driver):
    d = tempfile.mkdtemp()
    if driver == "h5":
        return MetadorContainer(h5py.File(os.path.join(d, "c.h5"), "w"))
    return MetadorContainer(IH5Record(os.path.join(d, "rec"), "w"))


def build(driver):
    mc = new(driver)
    mc["g/d"] = [1, 2, 3]
    mc["g/sub/e"] = 5
    mc["top"] = b"hello"
    mc["b"] = 7
    mc["g"].attrs["ga"] = 1
    mc["g"].meta["core.dir"] = D(name="x")
    mc["g/d"].meta["core.file"] = mkf("d")
    mc["g/sub/e"].meta["core.file"] = mkf("e")
    mc["top"].meta["core.file"] = mkf("top")
    return mc


def attempt(fn):
    """Run fn, return (ok, result-or-exception)."""
    try:
        return True, fn()
    except Exception as e:  # refusals are fine, we check effects
        return False, e


def snapshot(mc):
    """User-visible tree + attached metadata, seen through the unrestricted handle."""
    acc = []
    mc.visititems(lambda n, o: acc.append((n, sorted(o.meta.keys()) if hasattr(o, "meta") else None)))
    return sorted(acc)

# ---- scenario ----
fails = []
for drv in ["h5", "ih5"]:
    mc = build(drv)
    for node in [mc, mc["g"]]:
        ok, names = attempt(lambda: list(reversed(node)))
        if ok:
            bad = [n for n in names if str(n).startswith("metador_")]
            if bad:
                fails.append(f"{drv}: reversed({node.name}) exposes {bad}")
            elif sorted(names) != sorted(node.keys()):
                fails.append(f"{drv}: reversed({node.name}) = {names}")

for f in fails:
    print("FAIL:", f)
assert not fails
print("ok")
