"""C16: "a plugin class obtained without stating a version cannot be subclassed" -
the marker is lost when the version-less handle itself is used as lookup key.

exit 0 = library behaves as the property demands, exit 1 = defect present.
"""
import numpy as np; np.cumproduct = np.cumprod  # noqa (pint/numpy compat)
import sys
import tempfile

tempfile.mkdtemp()  # (nothing is written to disk by this demo)

import metador_core
from metador_core.plugins import schemas

print(metador_core.__file__)

S = schemas["core.file"]  # no version stated anywhere
try:
    class Direct(S):  # noqa
        ...
    print("DEFECT: direct subclassing of version-less handle possible")
    sys.exit(1)
except TypeError as e:
    print("direct subclassing refused (good):", e)

failures = []
for how, getter in (
    ("schemas.get(S)", lambda: schemas.get(S)),
    ("schemas[S]", lambda: schemas[S]),
):
    C = getter()  # still: no version was stated by the caller
    try:
        class Sub(C):  # noqa
            ...
        failures.append(f"{how} returned a subclassable class: {Sub.__mro__[1]!r}")
    except TypeError as e:
        print(how, "-> subclassing refused (good):", e)

if failures:
    print("DEFECT:", *failures, sep="\n  ")
    sys.exit(1)
print("OK")
