"""C15: a restriction added on a child of a local_only node is dropped by `.parent`."""
import numpy as np; np.cumproduct = np.cumprod  # noqa
import os, tempfile
import h5py
from metador_core.container import MetadorContainer
from metador_core.ih5.container import IH5Record
from metador_core.plugins import schemas
from metador_core.container.interface import NodeAcl

F = schemas.get("core.file", (0, 1, 0))
D = schemas.get("core.dir", (0, 1, 0))


def mkf(name):
    return F(filename=name, encodingFormat="text/plain", contentSize=3, sha256="ab" * 32)


def new(driver):
    d = tempfile.mkdtemp()
    if driver == "h5":
        return MetadorContainer(h5py.File(os.path.join(d, "c.h5"), "w"))
    return MetadorContainer(IH5Record(os.path.join(d, "rec"), "w"))


def build(driver):
    mc = new(driver)
    mc["g/d"] = [1, 2, 3]
    mc["g/sub/e"] = 5
    mc["top"] = b"hello"
    mc["b"] = 7
    mc["g"].attrs["ga"] = 1
    mc["g"].meta["core.dir"] = D(name="x")
    mc["g/d"].meta["core.file"] = mkf("d")
    mc["g/sub/e"].meta["core.file"] = mkf("e")
    mc["top"].meta["core.file"] = mkf("top")
    return mc


def attempt(fn):
    """Run fn, return (ok, result-or-exception)."""
    try:
        return True, fn()
    except Exception as e:  # refusals are fine, we check effects
        return False, e


def snapshot(mc):
    """User-visible tree + attached metadata, seen through the unrestricted handle."""
    acc = []
    mc.visititems(lambda n, o: acc.append((n, sorted(o.meta.keys()) if hasattr(o, "meta") else None)))
    return sorted(acc)

# ---- scenario ----
fails = []
for drv in ["h5", "ih5"]:
    # read_only added on the child
    mc = build(drv)
    g = mc["g"]
    g.restrict(local_only=True)
    c = g["sub"]
    c.restrict(read_only=True)
    before = snapshot(mc)
    ok, p = attempt(lambda: c.parent)
    if ok:
        if not p.acl[NodeAcl.read_only]:
            fails.append(f"{drv}: parent of a read_only node is not read_only: {p.acl}")
        attempt(lambda: p["sub"].create_group("new"))
        attempt(lambda: p.create_group("new2"))
    if snapshot(mc) != before:
        fails.append(f"{drv}: container mutated starting from a read_only node via .parent")

    # skel_only added on the child
    mc = build(drv)
    g = mc["g"]
    g.restrict(local_only=True)
    c = g["sub"]
    c.restrict(skel_only=True)
    ok, val = attempt(lambda: c.parent["sub"]["e"][()])
    if ok:
        fails.append(f"{drv}: dataset content {val!r} read starting from a skel_only node via .parent")

for f in fails:
    print("FAIL:", f)
assert not fails
print("ok")
