"""C16: a plugin class obtained without stating a version cannot be subclassed.

Route: field inspector of a version-less schema handle,  schemas[NAME].Fields[FIELD].origin
"""
import numpy as np; np.cumproduct = np.cumprod  # noqa
import sys
import tempfile

tempfile.mkdtemp()  # (no files needed)

from metador_core.plugins import schemas  # noqa: E402

bad = []


def try_subclass(what, cls):
    try:
        class Child(cls):  # noqa
            extra_field: int
    except TypeError:
        return  # refused, as demanded
    bad.append(f"{what} -> {cls!r} could be subclassed")


# sanity: the documented routes are refused
Img = schemas["core.imagefile"]  # no version stated
try_subclass('schemas["core.imagefile"]', Img)
try_subclass('schemas["core.bib"].Fields["author"].schemas["Person"]',
             schemas["core.bib"].Fields["author"].schemas["Person"])
assert not bad, bad

# the class that declares a field, reached through the version-less handle:
# - the plugin class itself (core.imagefile declares "width")
try_subclass('schemas["core.imagefile"].Fields["width"].origin', Img.Fields["width"].origin)
try_subclass('schemas["core.imagefile"].Fields.width.origin', Img.Fields.width.origin)
# - its parent plugin (core.file declares "filename"), also never named with a version
try_subclass('schemas["core.imagefile"].Fields["filename"].origin', Img.Fields["filename"].origin)
# - same one level deeper, below a nested schema of a version-less handle
Person = schemas.get("core.bib").Fields["author"].schemas["Person"]
try_subclass('schemas.get("core.bib").Fields["author"].schemas["Person"].Fields["email"].origin',
             Person.Fields["email"].origin)

for b in bad:
    print(b)
assert not bad, "plugin classes reached without stating a version can be subclassed"
print("OK")
sys.exit(0)
