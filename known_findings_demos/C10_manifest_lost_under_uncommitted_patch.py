"""C10: manifest extensions must persist until overridden, and the manifest of the
latest committed patch must stay available -- also when the newest container of the
record is a not-yet-committed patch (left behind by close(commit=False) or a crash).
"""
import numpy as np; np.cumproduct = np.cumprod
import shutil, tempfile
from pathlib import Path
from metador_core.ih5.manifest import IH5MFRecord

d = Path(tempfile.mkdtemp(prefix="demo1_"))
try:
    r = IH5MFRecord(d / "rec", "w")
    r["a"] = 1
    r.commit_patch(manifest_exts={"keep": "me"})
    assert r.manifest.manifest_exts == {"keep": "me"}
    r.create_patch()
    r["b"] = 2
    r.close(commit=False)  # patch stays on disk, uncommitted (same as a crash)

    # reopen for writing: library re-opens the incomplete patch to let us finish it
    r = IH5MFRecord(d / "rec", "r+")
    assert len(r.ih5_files) == 2
    r["c"] = 3
    r.commit_patch()  # no manifest_exts given -> must inherit {"keep": "me"}
    got = r.manifest.manifest_exts
    r.close()
    assert got == {"keep": "me"}, f"manifest extensions were dropped: {got!r}"

    # variant: discard the incomplete patch, then do a fresh one
    r = IH5MFRecord(d / "rec2", "w")
    r["a"] = 1
    r.commit_patch(manifest_exts={"keep": "me"})
    r.create_patch()
    r.close(commit=False)
    r = IH5MFRecord(d / "rec2", "r+")
    r.discard_patch()
    assert r.manifest.manifest_exts == {"keep": "me"}  # manifest of latest committed state
    r.close()
finally:
    shutil.rmtree(d, ignore_errors=True)
print("OK")
