"""Copying the root group into a subgroup duplicates the whole bookkeeping group.

Exits 0 if no reserved (metador_*) entity other than the metadata directories of the
copied user nodes shows up below the copy target, 1 otherwise.
"""
import numpy as np; np.cumproduct = np.cumprod  # noqa
import os, sys, tempfile
import h5py
from metador_core.container import MetadorContainer
from metador_core.ih5.container import IH5Record
from metador_core.plugins import schemas

F = schemas.get("core.file", (0, 1, 0))
D = schemas.get("core.dir", (0, 1, 0))
f = F(filename="a.txt", encodingFormat="text/plain", contentSize=3, sha256="ab" * 32)

tmp = tempfile.mkdtemp()
failed = []
for drv in ["h5py", "ih5"]:
    if drv == "h5py":
        mc = MetadorContainer(h5py.File(os.path.join(tmp, "c.h5"), "w"))
    else:
        mc = MetadorContainer(IH5Record(os.path.join(tmp, "rec"), "w"))
    mc.create_group("g")
    mc["d"] = 1
    mc["d"].meta["core.file"] = f
    mc.meta["core.dir"] = D(name="root")

    mc.copy("/", "backup")  # plain h5py: copies the user tree into /backup

    # user-visible result is as expected ...
    assert sorted(mc["backup"].keys()) == ["d", "g"], list(mc["backup"].keys())
    assert mc["backup/d"].meta.get("core.file") == f
    # ... but the raw group now contains a second, stale table of contents
    raw_names = set(mc.__wrapped__["backup"].keys())
    stray = {n for n in raw_names if n.startswith("metador_") and not n.startswith("metador_meta_")}
    print(drv, "reserved entities below /backup:", sorted(stray))
    if stray:
        failed.append((drv, stray))
    mc.close()

if failed:
    print("FAIL: bookkeeping group was copied along with the user data:", failed)
    sys.exit(1)
print("OK")
