"""C03: a record opened with mode 'r' must be strictly read-only.

Every node of a record exposes `.file` (like h5py). For IH5Record this returns a
hidden twin object whose `_allow_patching` is still True, so on a record opened
in mode 'r' one can call create_patch()/write/commit through `node.file`.
"""
import numpy as np; np.cumproduct = np.cumprod  # noqa
import sys, tempfile
from pathlib import Path
from metador_core.ih5.record import IH5Record
from metador_core.ih5.manifest import IH5MFRecord

fails = []
for cls in (IH5Record, IH5MFRecord):
    d = Path(tempfile.mkdtemp())
    r = cls(d / "foo", "w"); r["a"] = 1; r.create_group("g"); r.close()
    before = sorted(p.name for p in d.iterdir())

    ro = cls(d / "foo", "r")
    f = ro["g"].file  # h5py contract: the file object the node belongs to
    if f.mode != "r":
        fails.append(f"{cls.__name__}: node.file.mode == {f.mode!r} on a record opened with 'r'")
    try:
        f.create_patch()
        fails.append(f"{cls.__name__}: node.file.create_patch() accepted on a record opened with 'r'")
        try:
            ro["written_in_r_mode"] = 1
            fails.append(f"{cls.__name__}: write accepted on a record opened with 'r'")
        except ValueError:
            pass
    except ValueError:
        pass
    try:
        ro.close()
    except ValueError as e:
        fails.append(f"{cls.__name__}: close() of the 'r' record raises: {e}")
        f.close(commit=False)
    after = sorted(p.name for p in d.iterdir())
    if after != before:
        fails.append(f"{cls.__name__}: files on disk changed by an 'r' session: {before} -> {after}")

    # same aliasing: state kept on the twin is stale (manifest / closed flag)
    if cls is IH5MFRecord:
        w = cls(d / "bar", "w"); w["a"] = 1; w.commit_patch(manifest_exts={"k": 1})
        try:
            if w["/"].file.manifest.manifest_exts != w.manifest.manifest_exts:
                fails.append("IH5MFRecord: node.file.manifest differs from record.manifest")
        except ValueError as e:
            fails.append(f"IH5MFRecord: node.file.manifest raises although record.manifest exists: {e}")
        w.close()

for m in fails:
    print("FAIL:", m)
assert not fails
print("ok")
