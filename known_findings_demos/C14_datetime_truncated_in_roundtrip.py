"""C14: a complete object converted to its partial and back must be the same object.

Installed schema core.bib, field dateCreated (Union[date, datetime]) given with a
time of day: from_partial() silently truncates the datetime to a date.
"""
import numpy as np; np.cumproduct = np.cumprod  # noqa
import sys
import tempfile
from datetime import datetime

tempfile.mkdtemp()  # (no files needed)

from metador_core.plugins import schemas  # noqa: E402

Bib = schemas.get("core.bib", (0, 1, 0))
full = Bib.parse_obj(
    {
        "name": "title",
        "abstract": "text",
        "dateCreated": "2021-02-03T10:30:00",
        "author": [{"name": "Jane Doe"}],
    }
)
assert full.dateCreated == datetime(2021, 2, 3, 10, 30), full.dateCreated

ok = True

# 1. complete object -> partial -> complete object
partial = Bib.Partial.to_partial(full)
assert partial.dateCreated == datetime(2021, 2, 3, 10, 30)
back = partial.from_partial()
if back != full or back.dateCreated != full.dateCreated:
    print("to_partial/from_partial changed dateCreated:", repr(full.dateCreated), "->", repr(back.dateCreated))
    ok = False

# 2. same through a merge of partials parsed from JSON (no conflict anywhere)
P = Bib.Partial
a = P.parse_raw('{"name": "title", "abstract": "text", "author": [{"name": "Jane Doe"}]}')
b = P.parse_raw('{"dateCreated": "2021-02-03T10:30:00"}')
merged = P.merge(a, b)
assert merged.dateCreated == datetime(2021, 2, 3, 10, 30)
res = merged.from_partial()
if res.dateCreated != datetime(2021, 2, 3, 10, 30):
    print("merge + from_partial dropped the time of day:", repr(res.dateCreated))
    ok = False

# 3. same defect for another installed schema (core.file, dateModified)
F = schemas.get("core.file", (0, 1, 0))
f = F.parse_obj(
    {"filename": "f", "contentSize": 0, "sha256": "ab", "encodingFormat": "text/plain",
     "dateModified": "2021-02-03T10:30:00"}
)
fb = F.Partial.to_partial(f).from_partial()
if fb != f:
    print("core.file round trip changed dateModified:", repr(f.dateModified), "->", repr(fb.dateModified))
    ok = False

assert ok, "round trip complete -> partial -> complete is not the identity"
print("OK")
sys.exit(0)
