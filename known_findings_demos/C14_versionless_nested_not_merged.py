"""C14: a nested value that is an instance of a version-less schema handle
(`schemas["core.org"]`) is not merged recursively.

exit 0 = library behaves as the property demands, exit 1 = defect present.
"""
import numpy as np; np.cumproduct = np.cumprod  # noqa (pint/numpy compat)
import json
import sys
import tempfile

tempfile.mkdtemp()  # (nothing is written to disk by this demo)

import metador_core
from metador_core.plugins import schemas

print(metador_core.__file__)

Instr = schemas.get("example.matsci.instrument", (0, 1, 0))  # versioned handle
OrgV = schemas.get("core.org", (0, 1, 0))  # versioned handle
OrgU = schemas["core.org"]  # handle without stated version (interactive use)

other = {"instrumentManufacturer": {"url": "http://x.org"}}
expected = {"name": "ACME", "url": "http://x.org"}


def nested(p):
    d = json.loads(p.instrumentManufacturer.json())
    return {k: v for k, v in d.items() if not k.startswith("@")}


def run(Org):
    """Return list of (left-merge, right-merge) results for a complete object using Org."""
    obj = Instr(
        instrumentName="i", instrumentModel="m", instrumentManufacturer=Org(name="ACME")
    )
    a = Instr.Partial.to_partial(obj)  # complete object -> partial
    b = Instr.Partial.parse_obj(other)  # partial parsed from dict
    out = []
    for x, y in ((a, b), (b, a)):
        try:
            out.append(nested(x.merge_with(y)))  # disjoint fields: no conflict
        except ValueError as e:
            out.append(f"ValueError: {str(e).splitlines()[0]}")
    # with overwrite permission nothing may be dropped either
    out.append(nested(a.merge_with(b, allow_overwrite=True)))
    return out


ok = True
for name, Org in (("versioned", OrgV), ("version-less", OrgU)):
    res = run(Org)
    print(name, res)
    ok = ok and all(r == expected for r in res)

if not ok:
    print("DEFECT: nested object was not merged recursively")
    sys.exit(1)
print("OK")
