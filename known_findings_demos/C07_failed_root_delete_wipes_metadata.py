"""C07 ("... until it is deleted") / failure atomicity: a node delete that fails has
already destroyed all metadata at and below the node.

del mc["/"] (both drivers), del mc["."] and del mc["g/."] (h5py) raise KeyError, because
the root / a "." link cannot be unlinked - but MetadorGroup.__delitem__ destroys the
metadata first: all nodes are still there, all their metadata is gone.
"""
import numpy as np; np.cumproduct = np.cumprod  # noqa
import tempfile
from pathlib import Path

import h5py
from metador_core.container import MetadorContainer
from metador_core.ih5.container import IH5Record
from metador_core.plugins import schemas

F = schemas.get("core.file", (0, 1, 0))
D = schemas.get("core.dir", (0, 1, 0))
f = F(filename="a.txt", encodingFormat="text/plain", contentSize=3, sha256="ab" * 32)


def scenario(mc, key):
    mc.create_group("g")
    mc["g/d"] = 1
    mc.meta["core.dir"] = D(name="root")
    mc["g"].meta["core.dir"] = D(name="g")
    mc["g/d"].meta["core.file"] = f
    try:
        del mc[key]
    except Exception:  # noqa
        # the delete failed -> nothing may have changed
        assert "g" in mc and "g/d" in mc
        assert mc["g/d"].meta.get("core.file") == f, f"del mc[{key!r}] failed, but metadata of /g/d is gone"
        assert mc["g"].meta.get("core.dir") == D(name="g")
        assert mc.meta.get("core.dir") == D(name="root")
        assert [n.name for n in mc.metador.query("core.file")] == ["/g/d"]
    else:
        # the delete succeeded -> the node must be gone
        assert "g/d" not in mc


with tempfile.TemporaryDirectory() as tmp:
    for i, key in enumerate(["/", ".", "g/."]):
        with MetadorContainer(h5py.File(Path(tmp) / f"c{i}.h5", "w")) as mc:
            scenario(mc, key)
        with MetadorContainer(IH5Record(Path(tmp) / f"rec{i}", "w")) as mc:
            scenario(mc, key)
print("ok")
