"""C07 (+C06 after a failed operation): valid core.table objects cannot be attached.

core.table is an installed, non-auxiliary schema. A valid instance (columns carry a
pint unit) cannot be stored: node.meta["core.table"] = obj raises
"TypeError: Object of type 'PintUnit' is not JSON serializable", because the dynamic
JSON encoders (@json_encoder(str) on PintUnit) are never installed for metadata schemas.
The failed attach additionally leaves a reserved UUID behind in the in-memory TOC index.
"""
import numpy as np; np.cumproduct = np.cumprod  # noqa
import tempfile
from pathlib import Path

import h5py
from metador_core.container import MetadorContainer
from metador_core.plugins import schemas

T = schemas.get("core.table", (0, 1, 0))
assert not T.Plugin.auxiliary

obj = T(name="tab", columns=[{"name": "len", "unit": "meter"}, {"name": "f", "unit": "1/s"}])

with tempfile.TemporaryDirectory() as tmp:
    path = Path(tmp) / "c.h5"
    with MetadorContainer(h5py.File(path, "w")) as mc:
        mc["d"] = [[1, 2], [3, 4]]
        try:
            mc["d"].meta["core.table"] = obj
        except TypeError as e:
            raise AssertionError(f"valid core.table instance refused: {e}")
        assert mc["d"].meta.get("core.table") == obj
        assert [n.name for n in mc.metador.query("core.table")] == ["/d"]
    with MetadorContainer(h5py.File(path, "r")) as mc:
        assert mc["d"].meta.get("core.table") == obj
print("ok")
