"""C09: MetadorContainer.copy with a group *node* as source behaves differently per driver.

h5py.File driver : raises UnsupportedOperationError('id')
IH5 drivers      : succeeds, but silently drops all metadata below the copied group
Expected (same as with the path given as str, on every driver): the copy succeeds and
carries the metadata objects of the group and of its children.
"""
import numpy as np; np.cumproduct = np.cumprod  # noqa
import sys
import tempfile
from pathlib import Path

import h5py

from metador_core.container import MetadorContainer
from metador_core.ih5.manifest import IH5MFRecord
from metador_core.ih5.record import IH5Record
from metador_core.plugins import schemas

DirMeta = schemas.get("core.dir", (0, 1, 0))


def history(m, raw, src_as_node: bool):
    """Return (succeeded?, user-visible state) of the same history on a container."""
    m["g/d"] = 1
    m["g/sub/e"] = 2
    m["g"].meta["core.dir"] = DirMeta(name="G")
    m["g/d"].meta["core.dir"] = DirMeta(name="D")
    m["g/sub"].meta["core.dir"] = DirMeta(name="S")
    if hasattr(raw, "commit_patch"):  # patch boundary (irrelevant for the outcome)
        raw.commit_patch()
        raw.create_patch()
    try:
        m.copy(m["g"] if src_as_node else "g", "/cp")
        ok = True
    except Exception as e:  # noqa
        ok = repr(e)
    names = []
    m.visit(names.append)
    metas = {n: sorted(m[n].meta.keys()) for n in names}
    hits = sorted(n.name for n in m.metador.query("core.dir"))
    return ok, names, metas, hits


tmp = Path(tempfile.mkdtemp())
res = {}
for i, (label, drv) in enumerate([("h5py", h5py.File), ("ih5", IH5Record), ("ih5mf", IH5MFRecord)]):
    for as_node in (False, True):
        raw = drv(tmp / f"c{i}{int(as_node)}", "w")
        with MetadorContainer(raw) as m:
            res[(label, as_node)] = history(m, raw, as_node)

for k, v in res.items():
    print(k, v[0], v[3])

expected = res[("h5py", False)]  # reference: source given as path, plain HDF5
assert expected[0] is True
failed = [k for k, v in res.items() if v != expected]
assert not failed, f"copy with a group node as source deviates for: {failed}"
sys.exit(0)
