"""C03: record-name alphabet [A-Za-z0-9-] keeps records in a shared directory apart.

_is_valid_record_name uses re.match('^[...]+$'): '$' also matches before a trailing
newline, so 'foo\\n' passes as a record name. Its container 'foo\\n.ih5' is then
picked up by find_files('foo') (next char not in the alphabet), so record 'foo'
in the same directory cannot be opened any more (and 'w' on foo deletes it).
"""
import numpy as np; np.cumproduct = np.cumprod  # noqa
import tempfile
from pathlib import Path
from metador_core.ih5.record import IH5Record

d = Path(tempfile.mkdtemp())
r = IH5Record(d / "foo", "w"); r["a"] = 1; r.close()

fails = []
try:
    r = IH5Record(d / "foo\n", "w"); r["b"] = 1; r.close()
    accepted = True
except ValueError:
    accepted = False

if accepted:
    fails.append("record name 'foo\\n' accepted as valid")
    if len(IH5Record.find_files(d / "foo")) != 1:
        fails.append(f"find_files('foo') -> {[p.name for p in IH5Record.find_files(d / 'foo')]}")
    try:
        IH5Record(d / "foo", "r").close()
    except ValueError as e:
        fails.append(f"record 'foo' no longer opens by name: {e}")

for m in fails:
    print("FAIL:", m)
assert not fails
print("ok")
