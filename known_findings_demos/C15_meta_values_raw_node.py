"""C08 + C15: meta.values()/items() hand out raw, unwrapped bookkeeping datasets."""
import numpy as np; np.cumproduct = np.cumprod  # noqa
import os, tempfile
import h5py
from metador_core.container import MetadorContainer
from metador_core.ih5.container import IH5Record
from metador_core.plugins import schemas

F = schemas.get("core.file", (0, 1, 0))
D = schemas.get("core.dir", (0, 1, 0))


def mkf(name):
    return F(filename=name, encodingFormat="text/plain", contentSize=3, sha256="ab" * 32)


def new(driver):
    d = tempfile.mkdtemp()
    if driver == "h5":
        return MetadorContainer(h5py.File(os.path.join(d, "c.h5"), "w"))
    return MetadorContainer(IH5Record(os.path.join(d, "rec"), "w"))


def build(driver):
    mc = new(driver)
    mc["g/d"] = [1, 2, 3]
    mc["g/sub/e"] = 5
    mc["top"] = b"hello"
    mc["b"] = 7
    mc["g"].attrs["ga"] = 1
    mc["g"].meta["core.dir"] = D(name="x")
    mc["g/d"].meta["core.file"] = mkf("d")
    mc["g/sub/e"].meta["core.file"] = mkf("e")
    mc["top"].meta["core.file"] = mkf("top")
    return mc


def attempt(fn):
    """Run fn, return (ok, result-or-exception)."""
    try:
        return True, fn()
    except Exception as e:  # refusals are fine, we check effects
        return False, e


def snapshot(mc):
    """User-visible tree + attached metadata, seen through the unrestricted handle."""
    acc = []
    mc.visititems(lambda n, o: acc.append((n, sorted(o.meta.keys()) if hasattr(o, "meta") else None)))
    return sorted(acc)

# ---- scenario ----
fails = []
for drv in ["h5", "ih5"]:
    mc = build(drv)
    d = mc["g/d"]
    # C08: no bookkeeping entity may be visible / addressable
    for v in list(d.meta.values()) + [x[1] for x in d.meta.items()]:
        n = getattr(v, "node", None)
        if n is not None and "metador_" in str(getattr(n, "name", "")):
            fails.append(f"{drv}: meta listing exposes bookkeeping node {n.name}")
            break

    # C15: widget-style node (read_only + local_only)
    mc = build(drv)
    g = mc["g"]
    g.restrict(read_only=True, local_only=True)
    before = snapshot(mc)
    ok, vals = attempt(lambda: list(g["d"].meta.values()))
    if ok and vals:
        v = vals[0]
        ok, up = attempt(lambda: v.node.file)
        if ok:
            ok2, names = attempt(lambda: list(up.keys()))
            if ok2 and "top" in names:
                fails.append(f"{drv}: local_only node yields the file root: {names}")
            attempt(lambda: up.create_group("escaped"))
        attempt(lambda: v.node.parent.__delitem__(v.node.name.split("/")[-1]))
    if snapshot(mc) != before:
        fails.append(f"{drv}: container mutated starting from a read_only node via meta.values()")

for f in fails:
    print("FAIL:", f)
assert not fails
print("ok")
