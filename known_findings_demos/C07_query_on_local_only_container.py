"""A container restricted with local_only cannot be queried any more.

container.metador.query(schema) must yield exactly the nodes at or below the start node
(the root) carrying a compatible object.  Exits 0 if it does, 1 otherwise.
"""
import numpy as np; np.cumproduct = np.cumprod  # noqa
import os, sys, tempfile
import h5py
from metador_core.container import MetadorContainer
from metador_core.ih5.container import IH5Record
from metador_core.plugins import schemas

F = schemas.get("core.file", (0, 1, 0))
D = schemas.get("core.dir", (0, 1, 0))
f = F(filename="a.txt", encodingFormat="text/plain", contentSize=3, sha256="ab" * 32)

tmp = tempfile.mkdtemp()
failed = []
for drv in ["h5py", "ih5"]:
    if drv == "h5py":
        mc = MetadorContainer(h5py.File(os.path.join(tmp, "c.h5"), "w"))
    else:
        mc = MetadorContainer(IH5Record(os.path.join(tmp, "rec"), "w"))
    mc.create_group("g")
    mc["g/d"] = 1
    mc["g/d"].meta["core.file"] = f
    mc.meta["core.dir"] = D(name="root")

    expected_file = sorted(n.name for n in mc.metador.query("core.file"))
    expected_dir = sorted(n.name for n in mc.metador.query("core.dir"))
    assert expected_file == ["/g/d"] and expected_dir == ["/"]

    mc.restrict(local_only=True)  # e.g. before handing the container to a widget
    for schema, expected in [("core.file", expected_file), ("core.dir", expected_dir)]:
        try:
            got = sorted(n.name for n in mc.metador.query(schema))
        except Exception as e:  # noqa
            got = f"{type(e).__name__}: {e}"
        print(f"{drv}: local_only container query({schema!r}) -> {got!r}, expected {expected!r}")
        if got != expected:
            failed.append((drv, schema))
    # (a group below it can still be queried)
    assert sorted(n.name for n in mc["g"].metador.query("core.file")) == ["/g/d"]
    mc.close()

if failed:
    print("FAIL:", failed)
    sys.exit(1)
print("OK")
