"""C09: MetadorContainer declares {"mode", "flush", "close"} as the supported file-level
methods, but IH5Record / IH5MFRecord have no flush(): the same container operation
succeeds with the h5py.File driver and raises AttributeError with the IH5 drivers."""
import numpy as np; np.cumproduct = np.cumprod  # noqa
import sys, tempfile
from pathlib import Path
import h5py
from metador_core.ih5.record import IH5Record
from metador_core.ih5.manifest import IH5MFRecord
from metador_core.container import MetadorContainer

res = {}
with tempfile.TemporaryDirectory() as tmp:
    for drv in (h5py.File, IH5Record, IH5MFRecord):
        with MetadorContainer(Path(tmp) / f"c-{drv.__name__}", "w", driver=drv) as c:
            c["x"] = 1
            try:
                c.flush()
                res[drv.__name__] = "ok"
            except Exception as e:  # noqa
                res[drv.__name__] = "RAISED " + type(e).__name__
print(res)
assert res["File"] == "ok"
assert res["IH5Record"] == res["File"] and res["IH5MFRecord"] == res["File"]
sys.exit(0)
