import numpy as np; np.cumproduct=np.cumprod
import h5py, tempfile, os
from metador_core.container import MetadorContainer
d=tempfile.mkdtemp()
mc=MetadorContainer(h5py.File(os.path.join(d,"a.h5"),"w"))
mc["g/d"]=1
ds=mc["g"].restrict(local_only=True)["d"]
print(type(ds), ds.acl)
for attr in ("file","parent"):
    try:
        r=getattr(ds,attr); print(attr, type(r), r)
    except Exception as e: print(attr, "EXC", type(e).__name__, e)
ds2=mc["g/d"].restrict(local_only=True)
for attr in ("file","parent"):
    try:
        r=getattr(ds2,attr); print(attr, type(r), r)
    except Exception as e: print(attr, "EXC", type(e).__name__, e)
