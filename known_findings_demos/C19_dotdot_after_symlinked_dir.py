"""C19: two directories that differ ONLY in one symlink target get the same hashsum tree
(and a link that stays inside the directory is rejected as 'outside'), when the link
target contains '..' after a component that is a symlink to a directory.

exit 0 = library behaves as the property demands, exit 1 = defect present.
"""
import numpy as np; np.cumproduct = np.cumprod  # noqa
import os
import sys
import tempfile
from pathlib import Path

from metador_core.util.hashsums import dir_hashsums


def make(root: Path, l_target: str):
    (root / "sub" / "deep").mkdir(parents=True)
    (root / "f").write_bytes(b"top")
    (root / "sub" / "f").write_bytes(b"inner")
    os.symlink("sub/deep", root / "sd")  # in-directory symlink to a directory
    os.symlink(l_target, root / "l")


tmp = Path(tempfile.mkdtemp())
a, b, c = tmp / "A", tmp / "B", tmp / "C"
make(a, "sd/../f")  # kernel: sd -> sub/deep, then '..' -> sub, so l is sub/f
make(b, "f")  # l is f
make(c, "sd/../../f")  # sub/deep/../../f = f : stays inside

# sanity: the two links really lead to different files, all inside the directory
assert (a / "l").read_bytes() == b"inner" and (b / "l").read_bytes() == b"top"
assert (a / "l").resolve() == (a / "sub" / "f").resolve()
assert (c / "l").resolve() == (c / "f").resolve()

ok = True
ha, hb = dir_hashsums(a), dir_hashsums(b)
print("A:", ha["l"], " B:", hb["l"])
if ha == hb:
    print("DEFECT: directories differing in one symlink target have equal hashsum trees")
    ok = False
try:
    hc = dir_hashsums(c)
    print("C:", hc["l"])
except ValueError as e:
    print("DEFECT: in-directory symlink rejected:", e)
    ok = False

assert ok, "C19 violated"
sys.exit(0)
