"""C16: "a plugin class obtained without stating a version cannot be subclassed" -
holds only for the schema group; harvester / packer plugin classes obtained without
a version can be subclassed.

exit 0 = library behaves as the property demands, exit 1 = defect present.
"""
import numpy as np; np.cumproduct = np.cumprod  # noqa (pint/numpy compat)
import sys
import tempfile

tempfile.mkdtemp()  # (nothing is written to disk by this demo)

import metador_core
from metador_core.plugin.metaclass import UndefVersion
from metador_core.plugins import harvesters, packers, schemas

print(metador_core.__file__)

failures = []
for grp, name in ((schemas, "core.file"), (harvesters, "core.file.generic"), (packers, "core.generic")):
    H = grp[name]  # no version stated
    assert UndefVersion._is_marked(H), "handle is marked as version-less"
    try:
        class Sub(H):  # noqa
            ...
        failures.append(f"{grp.name}: subclass of version-less '{name}' created: {Sub.__mro__[:2]}")
    except TypeError as e:
        print(f"{grp.name}: refused (good): {e}")

if failures:
    print("DEFECT:", *failures, sep="\n  ")
    sys.exit(1)
print("OK")
