"""C01/C09: a set-dataset that fails must not change the tree.

IH5Group.create_dataset removes the deletion marker / creates the parent groups
*before* h5py has accepted the value. If h5py then rejects the value, the
failed assignment (a) resurrects data deleted earlier in the same patch and
(b) leaves freshly created parent groups behind.
"""
import numpy as np; np.cumproduct = np.cumprod  # noqa
import sys, tempfile
from pathlib import Path
import h5py
from metador_core.ih5.record import IH5Record


def tree(f):
    names = []
    f.visit(names.append)
    return sorted(names)


def scenario(f, boundary):
    f["x"] = 1
    boundary(f)
    del f["x"]
    for bad in (None, {}, object()):
        try:
            f["x"] = bad  # not storable -> fails on plain HDF5 and on IH5
            raise SystemExit("unexpected: storing %r succeeded" % (bad,))
        except (TypeError, ValueError):
            pass
    try:
        f["n/m/y"] = None
    except (TypeError, ValueError):
        pass
    return tree(f)


def patch(r):
    r.commit_patch()
    r.create_patch()


with tempfile.TemporaryDirectory() as tmp:
    with h5py.File(Path(tmp) / "ref.h5", "w") as f:
        expected = scenario(f, lambda _: None)
    assert expected == [], expected  # reference: nothing is left

    with IH5Record(Path(tmp) / "rec", "w") as r:
        got = scenario(r, patch)
    print("plain HDF5:", expected, " IH5:", got)
    assert "x" not in got, "deleted dataset /x reappeared after a FAILED assignment"
    assert got == expected, f"failed assignment left residue: {got}"
sys.exit(0)
