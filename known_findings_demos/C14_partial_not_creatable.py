"""C14: every installed schema has a partial; complete -> partial -> complete is the identity.

For the installed schema example.matsci.info the partial class cannot even be created.
"""
import numpy as np; np.cumproduct = np.cumprod  # noqa
import sys
import tempfile

tempfile.mkdtemp()  # (no files needed)

from metador_core.plugins import schemas  # noqa: E402

Info = schemas.get("example.matsci.info", (0, 1, 0))
full = Info.parse_obj(
    {
        "abstract": "tensile test",
        "dateCreated": "2020-01-01",
        "author": [{"name": "Jane Doe"}],
        "material": [{"materialName": "Fe", "density": 7.8}],
        "method": [
            {
                "methodType": "tensile_test",
                "instrument": {"instrumentName": "i", "instrumentModel": "m"},
                "specimen": {"diameter": 1.0, "gaugeLength": 2.0},
            }
        ],
    }
)

try:
    P = Info.Partial
except Exception as e:  # noqa
    print(f"example.matsci.info has no partial: {type(e).__name__}: {str(e).splitlines()[0]}")
    assert False, "partial class of an installed schema cannot be created"

p = P.to_partial(full)
assert p.from_partial() == full

e = P()
assert e.merge_with(p) == p and p.merge_with(e) == p
a = P.parse_obj({"material": [{"materialName": "Fe"}]})
b = P.parse_obj({"material": [{"materialName": "Cu"}], "abstract": "x"})
m = a.merge_with(b)
assert [x.materialName for x in m.material] == ["Fe", "Cu"]
assert [x.materialName for x in a.material] == ["Fe"]
print("OK")
sys.exit(0)
