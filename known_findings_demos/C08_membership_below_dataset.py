"""Membership test for a path below a (scalar) dataset raises, and "/" is reported missing.

A plain h5py file answers   "d/x" in f -> False   and   "/" in f -> True.
Exits 0 if the container answers the same, 1 otherwise.
"""
import numpy as np; np.cumproduct = np.cumprod  # noqa
import os, sys, tempfile
import h5py
from metador_core.container import MetadorContainer
from metador_core.ih5.container import IH5Record

tmp = tempfile.mkdtemp()

def build(f):
    f.create_group("g")
    f["g/d"] = 1
    f["d"] = 2

plain = h5py.File(os.path.join(tmp, "plain.h5"), "w")
build(plain)

failed = []
for drv in ["h5py", "ih5"]:
    if drv == "h5py":
        mc = MetadorContainer(h5py.File(os.path.join(tmp, "c.h5"), "w"))
    else:
        mc = MetadorContainer(IH5Record(os.path.join(tmp, "rec"), "w"))
    build(mc)
    for base, key in [("/", "d/x"), ("/", "g/d/x"), ("/", "/g/d/x"), ("g", "d/x"), ("g", "/d/x"), ("/", "/"), ("g", "/")]:
        expected = key in plain[base]
        try:
            got = key in mc[base]
        except Exception as e:  # noqa
            got = f"{type(e).__name__}: {e}"
        print(f"{drv}: {key!r} in mc[{base!r}] -> {got!r} (plain h5py: {expected!r})")
        if got != expected:
            failed.append((drv, base, key))
    mc.close()

if failed:
    print("FAIL:", failed)
    sys.exit(1)
print("OK")
