#!/bin/bash
# Evaluate one seeded change:  vt/seedeval.sh <PROP> <worktree> <N> <label>
#  1. confirm in the scratch worktree: demo passes without the patch, fails with it, pinned tests still pass with it
#  2. store it under /verif/seeded/<label>/ (patch.diff, demo.py, note.txt, meta.json)
#  3. run ./check <PROP> (quick) against the patched scratch worktree (VT_REPO), never against /repo
set -u
PROP=$1; WT=$2; N=$3; LABEL=$4
D=/verif/seeded/$LABEL; mkdir -p $D
cp $WT/seeds/seed$N.diff $D/patch.diff; cp $WT/seeds/demo$N.py $D/demo.py; cp $WT/seeds/note$N.txt $D/note.txt 2>/dev/null
cd $WT && git checkout -q -- src
run_demo() { (cd $WT && PYTHONPATH=$WT/src timeout 120 /venv/bin/python $D/demo.py >/dev/null 2>&1; echo $?); }
CLEAN=$(run_demo)
git -C $WT apply $D/patch.diff || { echo "APPLY FAILED"; exit 3; }
SEEDED=$(run_demo)
TESTS=$(cd $WT && PYTHONPATH=$WT/src timeout 900 /venv/bin/python -m pytest -q -p no:cacheprovider --timeout=900 --continue-on-collection-errors 2>&1 | tail -1)
mkdir -p /tmp/vt_out_$LABEL
T0=$(date +%s)
(cd /verif && VT_REPO=$WT VT_OUT=/tmp/vt_out_$LABEL timeout 3000 ./check $PROP --tier quick > /tmp/vt_out_$LABEL/log 2>&1; echo $? > /tmp/vt_out_$LABEL/rc)
T1=$(date +%s)
RC=$(cat /tmp/vt_out_$LABEL/rc)
git -C $WT checkout -q -- src
NV=$(grep -c "^VIOLATION" /tmp/vt_out_$LABEL/log)
python3 - <<PY
import json
meta = {"property": "$PROP", "label": "$LABEL", "demo_exit_clean": $CLEAN, "demo_exit_seeded": $SEEDED,
        "pinned_tests_with_patch": """$TESTS""".strip(), "check_cmd": "VT_REPO=<scratch worktree with patch> ./check $PROP --tier quick",
        "check_exit": $RC, "violation_lines": $NV, "check_wall_s": $T1 - $T0,
        "needs": open("$D/note.txt").read().strip() if __import__("os").path.exists("$D/note.txt") else ""}
meta["detected"] = ($RC == 1 and $NV > 0)
meta["evaluated_on_repo_head"] = "$(git -C $WT log --format=%h | head -1)"
json.dump(meta, open("$D/meta.json", "w"), indent=1)
print("$LABEL", "demo clean/seeded:", $CLEAN, $SEEDED, "| tests:", meta["pinned_tests_with_patch"], "| check rc", $RC, "violations", $NV, "wall", $T1 - $T0)
PY
grep -E "^(VIOLATION|HARNESS-ERROR|INCONCLUSIVE|SUMMARY)" /tmp/vt_out_$LABEL/log | cut -c1-300 | head -8
