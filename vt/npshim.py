"""Environment shim: pint 0.21 needs numpy.cumproduct (removed in numpy 2.x)."""
import numpy as np

if not hasattr(np, "cumproduct"):
    np.cumproduct = np.cumprod
