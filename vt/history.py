"""Witness-history search and public-API replay scripts for overlay counterexamples.

A solver counterexample of the (R)/(W) harnesses is a *raw container stack*. It only counts as
a violation if some history of public API calls produces that stack (DESIGN 3.5, stage 3).
`find_history` searches, container by container, for a short sequence of user operations
(on the current code, natively, on the substrate) whose resulting raw container has exactly
the counterexample's shape. `make_script` turns history (+ a final operation) into a
stand-alone script that runs against the *real* h5py and the real IH5Record in a temp dir and
compares, step by step, with the same operations applied to a plain h5py file -- which is the
property statement itself, so the script needs no reference model.
"""
import itertools
import json

SUBST_KEY = "\x1a"


def raw_shape(root):
    """Shape of one raw container: {path: kind}, {(path,key): kind} (values ignored)."""
    from vt.spec.fold import is_del

    sh = {}

    def rec(n, path):
        for k, c in n.ch.items():
            p = (path if path != "/" else "") + "/" + k
            if not c.isgrp:
                sh[p] = "DEL" if is_del(c.val) else "DS"
            else:
                sh[p] = "SUBST" if SUBST_KEY in c.at else "VIRT"
                rec(c, p)
            for ak, av in c.at.items():
                if ak != SUBST_KEY:
                    sh[(p, ak)] = "A_DEL" if is_del(av) else "A_VAL"

    rec(root, "/")
    for ak, av in root.at.items():
        sh[("/", ak)] = "A_DEL" if is_del(av) else "A_VAL"
    return sh


def _apply(r, op, val):
    from metador_core.ih5.overlay import DEL_VALUE  # noqa

    kind, p = op[0], op[1]
    try:
        if kind == "create_group":
            r.create_group(p)
        elif kind == "set":
            r[p] = val
        elif kind == "del":
            del r[p]
        elif kind == "attr_set":
            r[p].attrs[op[2]] = val
        elif kind == "attr_del":
            del r[p].attrs[op[2]]
        elif kind == "require_group":
            r.require_group(p)
        elif kind == "copy":
            r.copy(p, op[2])
        elif kind == "move":
            r.move(p, op[2])
        else:
            raise AssertionError(op)
        return True
    except (KeyError, ValueError, TypeError, AssertionError, RuntimeError, OSError):
        return False


def _alphabet(paths, keys, extra_paths=()):
    ops = []
    allp = list(paths) + [p for p in extra_paths if p not in paths]
    for p in allp:
        ops += [("create_group", p), ("set", p), ("del", p)]
        for k in keys:
            ops += [("attr_set", p, k), ("attr_del", p, k)]
    for k in keys:
        ops += [("attr_set", "/", k), ("attr_del", "/", k)]
    return ops


def find_history(target_shapes, paths, keys, maxlen=4, mkrecord=None, budget=400000):
    """target_shapes: list of raw_shape() per container. Returns list of op lists or None."""
    import vt.substrate.install as INST
    from vt.substrate import fakeh5

    ops = _alphabet([p for p in paths], keys, extra_paths=["zz"])
    hist = []
    tried = 0

    def replay(history, extra):
        INST.reset()
        files = []
        r = None
        val = [0]
        for i, seq in enumerate(list(history) + [extra]):
            f = fakeh5.File("/h/f%d" % i, "w")
            for g in files:
                g.mode = "r"
            files.append(f)
            r = mkrecord(files)
            for op in seq:
                val[0] += 1
                if not _apply(r, op, val[0]):
                    return None, None
        return files, r

    for i, tgt in enumerate(target_shapes):
        found = None
        for L in range(0, maxlen + 1):
            for seq in itertools.product(ops, repeat=L):
                tried += 1
                if tried > budget:
                    return None
                files, r = replay(hist, list(seq))
                if files is None:
                    continue
                if raw_shape(files[-1]._root) == tgt:
                    found = list(seq)
                    break
            if found is not None:
                break
        if found is None:
            return None
        hist.append(found)
    return hist


SCRIPT = r'''# Stand-alone replay: real h5py + real IH5Record vs. the same user operations on a plain h5py file.
import shutil, sys, tempfile
import numpy as np
if not hasattr(np, "cumproduct"):
    np.cumproduct = np.cumprod  # pint 0.21 on numpy 2.x (import shim only)
import h5py
from metador_core.ih5.record import IH5Record
from metador_core.ih5.overlay import DEL_VALUE

HISTORY = __HISTORY__   # one list of operations per container (base, patch 1, ...)
FINAL = __FINAL__       # final operation (or None): the step the solver counterexample is about
NEWV = 7777


def is_ds(n):
    return hasattr(n, "ndim")


def tree(r):
    out = {"/": ("g", None, {k: val(v) for k, v in r.attrs.items()})}
    def cb(name, node):
        out["/" + name] = ("d" if is_ds(node) else "g", val(node[()]) if is_ds(node) else None,
                           {k: val(v) for k, v in node.attrs.items()})
    r.visititems(cb)
    return out


def val(v):
    if isinstance(v, np.void):
        return ("void", v.tobytes())
    if isinstance(v, (int, np.integer)):
        return int(v)
    return repr(v)


PROBES = ["a", "a/x", "a/y", "a/x/p", "b", "/a", "/a/x", "zz", "a/zz", "a/x/zz/q"]


def lookups(r):
    """Outcome of `in`, get() and [] for a fixed set of probe paths (incl. paths running through a dataset)."""
    out = {}
    for p in PROBES:
        res = []
        for f in (lambda: p in r, lambda: r.get(p) is None, lambda: r[p].name):
            try:
                res.append(f())
            except Exception as e:
                res.append("exc")  # (only success/failure is compared, not the exception class)
        out[p] = res
    return out


def apply(r, op, v):
    kind, p = op[0], op[1]
    try:
        if len(op) > 3 and op[3]:  # operate through a sub-group handle
            r = r[op[3]]
        if kind in ("create_group", "require_group"):
            g = r.create_group(p) if kind == "create_group" else r.require_group(p)
            # the returned handle must show the same node as a plain file's handle does
            return "ok:" + repr((g.name, sorted(g.keys()), len(g), sorted(g.attrs.keys()), g.parent.name))
        elif kind in ("set", "setitem"): r[p] = v
        elif kind == "create_dataset": r.create_dataset(p, data=v)
        elif kind == "setitem_none": r[p] = None
        elif kind in ("del", "delitem"): del r[p]
        elif kind == "attr_set": r[p].attrs[op[2] if len(op) > 2 and op[2] else "k"] = v
        elif kind == "attr_del": del r[p].attrs[op[2] if len(op) > 2 and op[2] else "k"]
        elif kind == "require_group": r.require_group(p)
        elif kind == "require_dataset": r.require_dataset(p, shape=(), dtype="i8", data=v)
        elif kind == "copy": r.copy(p, op[2])
        elif kind == "copy_shallow": r.copy(p, op[2], shallow=True)
        elif kind == "copy_noattrs": r.copy(p, op[2], without_attrs=True)
        elif kind == "copy_node": r.copy(r[p], r.require_group(op[2]))
        elif kind == "move": r.move(p, op[2])
        elif kind == "ds_write": r[p][()] = v
        elif kind == "set_delvalue": r[p] = DEL_VALUE
        else: raise AssertionError(op)
        return "ok"
    except (KeyError, ValueError, TypeError, OSError, RuntimeError, AssertionError) as e:
        return "exc:" + type(e).__name__


tmp = tempfile.mkdtemp(prefix="vt_replay_")
bad = []
try:
    rec = IH5Record(tmp + "/rec", "w")
    plain = h5py.File(tmp + "/plain.h5", "w")
    n = 0
    for i, ops in enumerate(HISTORY):
        if i > 0:
            rec.commit_patch()
            rec.create_patch()
        for op in ops:
            n += 1
            a, b = apply(rec, op, n), apply(plain, op, n)
            print("container", i, op, "->", a, "| plain:", b)
            if a.startswith("ok") != b.startswith("ok") or (a.startswith("ok:") and a != b):
                bad.append(("outcome differs", i, op, a, b))
        try:
            ta, tb = tree(rec), tree(plain)
        except Exception as e:
            bad.append(("reading the record failed", i, type(e).__name__, str(e)[:200]))
            break
        if ta != tb:
            bad.append(("tree differs after container %d" % i, ta, tb))
            break
        la, lb = lookups(rec), lookups(plain)
        if la != lb:
            bad.append(("lookups (in / get / []) differ after container %d" % i, {k: (la[k], lb[k]) for k in la if la[k] != lb[k]}))
            break
    if FINAL is not None and not bad and FINAL[0] == "copy_into_patch":
        # IH5-specific: re-creates the newest value in the current patch; must not change the view
        before = tree(rec)
        try:
            rec[FINAL[1]].copy_into_patch()
            print("final copy_into_patch", FINAL[1], "-> ok")
        except (ValueError, KeyError, OSError) as e:
            print("final copy_into_patch", FINAL[1], "-> refused:", type(e).__name__)
        if tree(rec) != before:
            bad.append(("copy_into_patch changed the visible tree", before, tree(rec)))
    elif FINAL is not None and not bad:
        a, b = apply(rec, FINAL, NEWV), apply(plain, FINAL, NEWV)
        print("final", FINAL, "->", a, "| plain:", b)
        if FINAL[0] != "set_delvalue" and (a.startswith("ok") != b.startswith("ok") or (a.startswith("ok:") and a != b)):
            bad.append(("final outcome differs", FINAL, a, b))
        try:
            ta, tb = tree(rec), tree(plain)
            if ta != tb and not (FINAL[0] == "set_delvalue"):
                bad.append(("tree differs after final operation", ta, tb))
        except Exception as e:
            bad.append(("reading the record failed after final operation", type(e).__name__, str(e)[:200]))
finally:
    shutil.rmtree(tmp, ignore_errors=True)
for b in bad:
    print("MISMATCH:", b)
print("property holds on this history" if not bad else "PROPERTY VIOLATED")
sys.exit(1 if bad else 0)
'''


def make_script(history, final):
    return SCRIPT.replace("__HISTORY__", repr(history)).replace("__FINAL__", repr(final))


def run_script(script, py="/venv/bin/python"):
    """Run a replay script in a fresh interpreter with the real libraries (no substrate)."""
    import os
    import subprocess
    import tempfile

    fd, path = tempfile.mkstemp(prefix="vt_script_", suffix=".py")
    os.write(fd, script.encode())
    os.close(fd)
    try:
        env = dict(os.environ)
        env["PYTHONPATH"] = env.get("VT_REPO", "/repo") + "/src"
        p = subprocess.run([py, path], capture_output=True, text=True, timeout=300, env=env, cwd="/")
        return p.returncode, (p.stdout + p.stderr)[-3000:]
    finally:
        os.unlink(path)


def key_of(history, final):
    """Normalised identity of a failing history (for the known-findings file)."""
    return json.dumps([history, final], sort_keys=True)


MERGE_SCRIPT = r'''# Stand-alone replay for C05 on real h5py: build the source record through the public API, merge, compare.
import shutil, sys, tempfile
from pathlib import Path
import numpy as np
if not hasattr(np, "cumproduct"):
    np.cumproduct = np.cumprod  # pint 0.21 on numpy 2.x (import shim only)
import h5py
from metador_core.ih5.record import IH5Record
from metador_core.ih5.manifest import IH5MFRecord

HISTORY = __HISTORY__   # one list of operations per container of the source record
FOLLOW = __FOLLOW__     # follow-up patch operation applied to the source after the merge
CLS = {"ih5": IH5Record, "mf": IH5MFRecord}[__CLS__]


def is_ds(n):
    return hasattr(n, "ndim")


def val(v):
    if isinstance(v, np.void):
        return ("void", v.tobytes())
    if isinstance(v, (int, np.integer)):
        return int(v)
    return repr(v)


def tree(r):
    out = {"/": ("g", None, {k: val(v) for k, v in r.attrs.items()})}
    def cb(name, node):
        out["/" + name] = ("d" if is_ds(node) else "g", val(node[()]) if is_ds(node) else None,
                           {k: val(v) for k, v in node.attrs.items()})
    r.visititems(cb)
    return out


def apply(r, op, v):
    kind, p = op[0], op[1]
    try:
        if kind == "create_group": r.create_group(p)
        elif kind in ("set", "setitem"): r[p] = v
        elif kind in ("del", "delitem"): del r[p]
        elif kind == "attr_set": r[p].attrs[op[2] if len(op) > 2 and op[2] else "k"] = v
        elif kind == "attr_del": del r[p].attrs[op[2] if len(op) > 2 and op[2] else "k"]
        else: raise AssertionError(op)
        return "ok"
    except (KeyError, ValueError, TypeError, OSError, RuntimeError) as e:
        return "exc:" + type(e).__name__


def meta(r):
    return [u.json() for u in r.ih5_meta]


tmp = tempfile.mkdtemp(prefix="vt_merge_")
bad = []
try:
    rec = CLS(tmp + "/rec", "w")
    n = 0
    for i, ops in enumerate(HISTORY):
        if i > 0:
            rec.commit_patch()
            rec.create_patch()
        for op in ops:
            n += 1
            apply(rec, op, n)
    rec.commit_patch()
    rec.close()
    src = CLS(tmp + "/rec", "r")
    t0, m0 = tree(src), meta(src)
    files0 = {str(f): Path(f).read_bytes() for f in Path(tmp).iterdir()}
    mfile = src.merge_files(Path(tmp) / "mrg")
    if meta(src) != m0:
        bad.append(("ih5_meta of the still-open source changed by merge", m0, meta(src)))
    if tree(src) != t0:
        bad.append(("view of the source changed by merge",))
    if any(Path(f).read_bytes() != b for f, b in files0.items()):
        bad.append(("a source file changed on disk",))
    m = CLS(tmp + "/mrg", "r")
    if tree(m) != t0 or len(m.ih5_files) != 1:
        bad.append(("merged tree differs from the overlay view", tree(m), t0))
    mu, su = m.ih5_meta[0], src.ih5_meta
    if not (mu.record_uuid == su[-1].record_uuid and mu.patch_uuid == su[-1].patch_uuid
            and mu.patch_index == su[-1].patch_index and mu.prev_patch is None):
        bad.append(("merged container does not identify as the same record state",))
    m.close(); src.close()
    s2 = CLS(tmp + "/rec", "r+")
    apply(s2, FOLLOW, 7777)
    s2.commit_patch()
    t2, pf = tree(s2), s2.ih5_files[-1]
    s2.close()
    try:
        both = CLS([Path(mfile), Path(pf)], "r")
        if tree(both) != t2:
            bad.append(("follow-up patch gives a different result on the merged container", tree(both), t2))
        # merging again (merged container + follow-up patch) keeps the identity of the newest state
        m2file = both.merge_files(Path(tmp) / "mrg2")
        want = both.ih5_meta[-1]
        both.close()
        m2 = CLS(tmp + "/mrg2", "r")
        got = m2.ih5_meta[0]
        if tree(m2) != t2:
            bad.append(("second-generation merge shows a different tree", tree(m2), t2))
        if (got.patch_index, got.patch_uuid, got.record_uuid) != (want.patch_index, want.patch_uuid, want.record_uuid):
            bad.append(("second-generation merge does not identify as the newest patch state", got.patch_index, want.patch_index))
        m2.close()
    except ValueError as e:
        bad.append(("follow-up patch does not open on the merged container", str(e)[:200]))
finally:
    shutil.rmtree(tmp, ignore_errors=True)
for b in bad:
    print("MISMATCH:", b)
print("property holds on this history" if not bad else "PROPERTY VIOLATED")
sys.exit(1 if bad else 0)
'''


def make_merge_script(history, follow, cls):
    return MERGE_SCRIPT.replace("__HISTORY__", repr(history)).replace("__FOLLOW__", repr(follow)).replace("__CLS__", repr(cls))


STUB_SCRIPT = r'''# Stand-alone replay for C10 on real h5py: stub-made patch vs. direct update of the real record.
import shutil, sys, tempfile
from pathlib import Path
import numpy as np
if not hasattr(np, "cumproduct"):
    np.cumproduct = np.cumprod  # pint 0.21 on numpy 2.x (import shim only)
import h5py
from metador_core.ih5.manifest import IH5MFRecord, IH5Manifest, IH5UBExtManifest
from metador_core.ih5.record import hashsum_file
from metador_core.ih5.skeleton import IH5Skeleton

HISTORY = __HISTORY__   # one list of operations per container of the real record
FOLLOW = __FOLLOW__     # existence-based update, applied once via a stub and once directly


def is_ds(n):
    return hasattr(n, "ndim")


def val(v):
    if isinstance(v, np.void):
        return ("void", v.tobytes())
    if isinstance(v, (int, np.integer)):
        return int(v)
    if isinstance(v, h5py.Empty):
        return "EMPTY"
    return repr(v)


def tree(r):
    out = {"/": ("g", None, {k: val(v) for k, v in r.attrs.items()})}
    def cb(name, node):
        out["/" + name] = ("d" if is_ds(node) else "g", val(node[()]) if is_ds(node) else None,
                           {k: val(v) for k, v in node.attrs.items()})
    r.visititems(cb)
    return out


def shape(r):
    return {p: (str(getattr(i.node_type, "value", i.node_type)), sorted(i.attrs)) for p, i in IH5Skeleton.for_record(r).__root__.items()}


def apply(r, op, v):
    kind, p = op[0], op[1]
    try:
        if kind == "create_group": r.create_group(p)
        elif kind in ("set", "setitem"): r[p] = v
        elif kind in ("del", "delitem"): del r[p]
        elif kind == "attr_set": r[p].attrs[op[2] if len(op) > 2 and op[2] else "k"] = v
        elif kind == "attr_del": del r[p].attrs[op[2] if len(op) > 2 and op[2] else "k"]
        else: raise AssertionError(op)
        return "ok"
    except (KeyError, ValueError, TypeError, OSError, RuntimeError) as e:
        return "exc:" + type(e).__name__


def manifest_problem(rec):
    newest = Path(rec.ih5_files[-1])
    ext = IH5UBExtManifest.get(rec.ih5_meta[-1])
    side = Path(str(newest) + "mf.json")
    if ext is None or not side.is_file():
        return "manifest missing"
    if hashsum_file(side) != ext.manifest_hashsum:
        return "sidecar does not hash to manifest_hashsum"
    mf = IH5Manifest.parse_file(side)
    if mf.manifest_uuid != ext.manifest_uuid:
        return "manifest uuid differs"
    if mf.skeleton != IH5Skeleton.for_record(rec):
        return "manifest skeleton differs from the current skeleton"
    return None


tmp = Path(tempfile.mkdtemp(prefix="vt_stub_"))
bad = []
try:
    real_dir, stub_dir = tmp / "real", tmp / "stub"
    real_dir.mkdir(); stub_dir.mkdir()
    rec = IH5MFRecord(real_dir / "rec", "w")
    n = 0
    for i, ops in enumerate(HISTORY):
        if i > 0:
            rec.commit_patch()
            rec.create_patch()
        for op in ops:
            n += 1
            apply(rec, op, n)
    rec.commit_patch(manifest_exts={"keep": 1})
    p = manifest_problem(rec)
    if p: bad.append(("after commit", p))
    real_shape, nfiles = shape(rec), len(rec.ih5_files)
    mfile = Path(str(rec.ih5_files[-1]) + "mf.json")
    rec.close()
    shutil.copytree(real_dir, tmp / "backup")
    # (A) stub
    stub = IH5MFRecord.create_stub(stub_dir / "stub", mfile)
    if shape(stub) != real_shape:
        bad.append(("stub skeleton differs from the real record's", shape(stub), real_shape))
    for path, (kind, ats) in real_shape.items():
        if kind == "dataset" and not isinstance(stub[path][()], h5py.Empty):
            bad.append(("stub exposes data", path))
        for a in ats:
            if not isinstance(stub[path].attrs[a], h5py.Empty):
                bad.append(("stub exposes an attribute value", path, a))
    try:
        stub.merge_files(stub_dir / "m")
        bad.append(("merge of a stub not refused",))
    except ValueError:
        pass
    stub.close()
    s = IH5MFRecord(stub_dir / "stub", "r+")
    r_stub = apply(s, FOLLOW, 7777)
    s.commit_patch()
    patch = Path(s.ih5_files[-1])
    exts_stub = IH5Manifest.parse_file(Path(str(patch) + "mf.json")).manifest_exts
    s.close()
    if exts_stub != {"keep": 1}:
        bad.append(("manifest extensions lost in the stub-made patch", exts_stub))
    # (B) direct update
    d = IH5MFRecord(real_dir / "rec", "r+")
    r_direct = apply(d, FOLLOW, 7777)
    d.commit_patch()
    p = manifest_problem(d)
    if p: bad.append(("after direct patch", p))
    if d.manifest.manifest_exts != {"keep": 1}:
        bad.append(("manifest extensions did not persist", d.manifest.manifest_exts))
    t_direct, s_direct = tree(d), shape(d)
    d.create_patch()
    d.commit_patch(manifest_exts={"other": 2})
    on_disk = IH5Manifest.parse_file(Path(str(d.ih5_files[-1]) + "mf.json")).manifest_exts
    if d.manifest.manifest_exts != {"other": 2} or on_disk != {"other": 2}:
        bad.append(("manifest extensions not replaced by the override", d.manifest.manifest_exts, on_disk))
    d.close()
    if (r_stub == "ok") != (r_direct == "ok"):
        bad.append(("update outcome differs", r_stub, r_direct))
    # (C) real files + stub-made patch
    comb = tmp / "backup"
    target = comb / ("rec.p%d.ih5" % nfiles)
    shutil.copy(patch, target)
    shutil.copy(str(patch) + "mf.json", str(target) + "mf.json")
    try:
        both = IH5MFRecord(comb / "rec", "r")
        if tree(both) != t_direct or shape(both) != s_direct:
            bad.append(("real record + stub-made patch differs from the direct update", tree(both), t_direct))
        both.close()
    except ValueError as e:
        bad.append(("stub-made patch not accepted by the real record", str(e)[:200]))
finally:
    shutil.rmtree(tmp, ignore_errors=True)
for b in bad:
    print("MISMATCH:", b)
print("property holds on this history" if not bad else "PROPERTY VIOLATED")
sys.exit(1 if bad else 0)
'''


def make_stub_script(history, follow):
    return STUB_SCRIPT.replace("__HISTORY__", repr(history)).replace("__FOLLOW__", repr(follow))
