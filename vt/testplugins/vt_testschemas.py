"""Schema family for the container harness: vt.aa <- vt.bone, vt.aa <- vt.btwo (siblings under one parent)."""
from typing import Optional

from metador_core.schema import MetadataSchema


class AA(MetadataSchema):
    class Plugin:
        name = "vt.aa"
        version = (0, 1, 0)

    x: Optional[int]


class BOne(AA):
    class Plugin:
        name = "vt.bone"
        version = (0, 1, 0)

    one: Optional[int]


class BTwo(AA):
    class Plugin:
        name = "vt.btwo"
        version = (0, 1, 0)

    two: Optional[int]
