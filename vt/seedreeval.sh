#!/bin/bash
# Re-evaluate a stored seed against the current /repo HEAD:  vt/seedreeval.sh <label> <scratch worktree at HEAD>
# (patch.diff / demo.py are taken from /verif/seeded/<label>/; meta.json is updated, its history kept)
set -u
LABEL=$1; WT=$2
D=/verif/seeded/$LABEL
PROP=$(python3 -c "import json;print(json.load(open('$D/meta.json'))['property'])")
cd $WT && git checkout -q -- src
run_demo() { (cd $WT && PYTHONPATH=$WT/src timeout 120 /venv/bin/python $D/demo.py >/dev/null 2>&1; echo $?); }
CLEAN=$(run_demo)
git -C $WT apply $D/patch.diff || { echo "APPLY FAILED $LABEL"; exit 3; }
SEEDED=$(run_demo)
TESTS=$(cd $WT && PYTHONPATH=$WT/src timeout 900 /venv/bin/python -m pytest -q -p no:cacheprovider --timeout=900 --continue-on-collection-errors 2>&1 | tail -1)
rm -rf /tmp/vt_out_$LABEL; mkdir -p /tmp/vt_out_$LABEL
T0=$(date +%s)
(cd /verif && VT_REPO=$WT VT_OUT=/tmp/vt_out_$LABEL timeout 3000 ./check $PROP --tier quick > /tmp/vt_out_$LABEL/log 2>&1; echo $? > /tmp/vt_out_$LABEL/rc)
T1=$(date +%s)
RC=$(cat /tmp/vt_out_$LABEL/rc)
git -C $WT checkout -q -- src
NV=$(grep -c "^VIOLATION" /tmp/vt_out_$LABEL/log)
HEAD=$(git -C $WT log --format=%h | head -1)
python3 - <<PY
import json
p = "$D/meta.json"
meta = json.load(open(p))
meta.update({"demo_exit_clean": $CLEAN, "demo_exit_seeded": $SEEDED, "pinned_tests_with_patch": """$TESTS""".strip(),
             "check_exit": $RC, "violation_lines": $NV, "check_wall_s": $T1 - $T0, "evaluated_on_repo_head": "$HEAD",
             "detected": ($RC == 1 and $NV > 0)})
json.dump(meta, open(p, "w"), indent=1)
print("$LABEL", "demo clean/seeded:", $CLEAN, $SEEDED, "| tests:", meta["pinned_tests_with_patch"], "| check rc", $RC, "violations", $NV, "wall", $T1 - $T0)
PY
grep -E "^(HARNESS-ERROR|INCONCLUSIVE)" /tmp/vt_out_$LABEL/log | cut -c1-300 | head -4
rm -rf /tmp/vt_out_$LABEL
