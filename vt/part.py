"""Per-process partition state shared between worker and harness modules."""
SEL = {}       # selector values fixed for this partition
REACH = [0]    # number of explored paths that reached the oracle (vacuity guard)
NOTES = []     # free-form notes from harness (native), e.g. unreachable-state hints
NATIVE = False  # True during native replay


def reach():
    """Called by a harness right before it evaluates its oracle."""
    if NATIVE:
        REACH[0] += 1
        return
    from crosshair.tracers import NoTracing

    with NoTracing():
        REACH[0] += 1


def note(s):
    if NATIVE:
        NOTES.append(str(s))
        return
    from crosshair.tracers import NoTracing

    with NoTracing():
        NOTES.append(str(s))
