"""Per-process partition state shared between worker and harness modules."""
SEL = {}       # selector values fixed for this partition
REACH = [0]    # number of explored paths that reached the oracle (vacuity guard)
NOTES = []     # free-form notes from harness (native), e.g. unreachable-state hints
NATIVE = False  # True during native replay


def reach():
    """Called by a harness right before it evaluates its oracle."""
    if NATIVE:
        REACH[0] += 1
        return
    from crosshair.tracers import NoTracing

    with NoTracing():
        REACH[0] += 1


def note(s):
    if NATIVE:
        NOTES.append(str(s))
        return
    from crosshair.tracers import NoTracing

    with NoTracing():
        NOTES.append(str(s))


class _Null:
    def __enter__(self):
        return self

    def __exit__(self, *a):
        return False


def untraced():
    """Context manager: suspend CrossHair tracing (no-op during native replay). Only used around
    harness-side bookkeeping on values that are already concrete (builders, reference oracles)."""
    if NATIVE:
        return _Null()
    from crosshair.tracers import NoTracing, is_tracing

    return NoTracing() if is_tracing() else _Null()
