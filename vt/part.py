"""Per-process partition state shared between worker and harness modules."""
SEL = {}       # selector values fixed for this partition
REACH = [0]    # number of explored paths that reached the oracle (vacuity guard)
NOTES = []     # free-form notes from harness (native), e.g. unreachable-state hints
NATIVE = False  # True during native replay


def reach():
    """Called by a harness right before it evaluates its oracle."""
    if NATIVE:
        REACH[0] += 1
        return
    from crosshair.tracers import NoTracing

    with NoTracing():
        REACH[0] += 1


SAMPLES = []  # a few concrete cases this partition explored (for the evidence file)


def sample(x, limit=3):
    """Record a concrete explored case (only values that are already concrete/realised)."""
    if len(SAMPLES) >= limit:
        return
    if NATIVE:
        SAMPLES.append(x)
        return
    from crosshair.tracers import NoTracing

    with NoTracing():
        SAMPLES.append(x)


def note(s):
    if NATIVE:
        NOTES.append(str(s))
        return
    from crosshair.tracers import NoTracing

    with NoTracing():
        NOTES.append(str(s))


class _Null:
    def __enter__(self):
        return self

    def __exit__(self, *a):
        return False


def untraced():
    """Context manager: suspend CrossHair tracing (no-op during native replay). Only used around
    harness-side bookkeeping on values that are already concrete (builders, reference oracles)."""
    if NATIVE:
        return _Null()
    from crosshair.tracers import NoTracing, is_tracing

    return NoTracing() if is_tracing() else _Null()


_SRV = {}


class NativeError(Exception):
    pass


def native_call(module, func, *args):
    """Run module.func(*args) in the tracer-free helper process (see vt/nativesrv.py). All args must
    be concrete, JSON-serialisable values. During native replay the call is made directly."""
    import importlib
    import json as _json

    if NATIVE:
        return getattr(importlib.import_module(module), func)(*args)
    from crosshair.tracers import NoTracing

    with NoTracing():
        import os
        import subprocess
        import sys

        srv = _SRV.get(module)
        if srv is None or srv.poll() is not None:
            env = dict(os.environ)
            srv = subprocess.Popen([sys.executable, "-m", "vt.nativesrv", module, _json.dumps(SEL)],
                                   stdin=subprocess.PIPE, stdout=subprocess.PIPE, text=True, env=env)
            ready = srv.stdout.readline()
            if ready.strip() != "READY":
                raise NativeError("native helper did not start: " + ready)
            _SRV[module] = srv
        srv.stdin.write(_json.dumps([func, list(args)]) + "\n")
        srv.stdin.flush()
        line = srv.stdout.readline()
        if not line:
            raise NativeError("native helper died")
        res = _json.loads(line)
        NOTES.extend(res.get("notes", []))
        if "exc" in res:
            raise NativeError(res["exc"] + "\n" + res.get("tb", ""))
        return res["ret"]
