"""Partition scheduler, counterexample triage, evidence writer."""
from __future__ import annotations

import ast
import concurrent.futures as cf
import json
import os
import subprocess
import sys
import time
from dataclasses import dataclass, field
from pathlib import Path
from typing import Any, Callable, Dict, List, Optional

HERE = Path(__file__).resolve().parent.parent
PY = "/verif/.venv/bin/python"
EXIT_OK, EXIT_VIOLATION, EXIT_HARNESS = 0, 1, 2


@dataclass
class Part:
    module: str
    func: str
    sel: Dict[str, Any] = field(default_factory=dict)
    cond_timeout: float = 120.0
    path_timeout: float = 30.0
    obligation: str = ""
    pure_pydantic: bool = False
    weight: float = 1.0  # scheduling hint (bigger first)

    @property
    def label(self):
        s = "_".join(f"{k}{v}" for k, v in sorted(self.sel.items()))
        return f"{self.module.split('.')[-1]}.{self.func}" + (f"[{s}]" if s else "")


def _env(part: Part):
    env = dict(os.environ)
    pp = [str(HERE), os.environ.get("VT_REPO", "/repo") + "/src", str(HERE / "vt" / "testplugins")]
    if part.pure_pydantic:
        pp.insert(0, "/verif/.venv/purepyd")
    if env.get("PYTHONPATH"):
        pp.append(env["PYTHONPATH"])
    env["PYTHONPATH"] = ":".join(pp)
    env["PYTHONDONTWRITEBYTECODE"] = "1"
    env["PYTHONHASHSEED"] = "0"
    return env


def _run_worker(part: Part, extra: List[str], timeout: float) -> Dict[str, Any]:
    cmd = [PY, "-m", "vt.worker", part.module, part.func, "--part", json.dumps(part.sel)] + extra
    t0 = time.time()
    try:
        p = subprocess.run(cmd, capture_output=True, text=True, timeout=timeout, env=_env(part), cwd=str(HERE))
    except subprocess.TimeoutExpired:
        if os.environ.get("VT_TIER") == "thorough":
            # thorough partitions are sized to run for a long time and CrossHair's own limit counts CPU time: under
            # load the wall limit can be reached without a hang -> unexplored remainder (stated), not an error
            return {"status": "not_confirmed", "wall_limit": True, "wall_s": time.time() - t0, "paths": {}, "z3": {}, "reach": 0,
                    "messages": [{"state": "CANNOT_CONFIRM", "message": "wall-clock limit (%ds) reached: partition not exhausted" % timeout}],
                    "ce_args": None}
        return {"status": "error", "error": "worker exceeded its wall-clock limit (%ds): some path does not terminate" % timeout,
                "wall_s": time.time() - t0, "paths": {}, "z3": {}, "reach": 0, "messages": [], "ce_args": None}
    for line in reversed(p.stdout.splitlines()):
        if line.startswith("VTRESULT "):
            return json.loads(line[len("VTRESULT "):])
    return {"status": "error", "error": "no result from worker; rc=%s\nstdout: %s\nstderr: %s"
            % (p.returncode, p.stdout[-1500:], p.stderr[-3000:]),
            "wall_s": time.time() - t0, "paths": {}, "z3": {}, "reach": 0, "messages": [], "ce_args": None}


def analyze(part: Part) -> Dict[str, Any]:
    r = _run_worker(part, ["--cond-timeout", str(part.cond_timeout), "--path-timeout", str(part.path_timeout)],
                    timeout=part.cond_timeout * 3 + 180)  # (CrossHair's own limit counts CPU time; generous wall limit catches real hangs)
    r["label"] = part.label
    r["obligation"] = part.obligation
    return r


def replay_native(part: Part, kwargs_repr: str) -> Dict[str, Any]:
    return _run_worker(part, ["--replay", kwargs_repr], timeout=300)


def nproc():
    try:
        n = len(os.sched_getaffinity(0))
    except Exception:  # noqa
        n = os.cpu_count() or 4
    return max(1, min(16, n))


def run_parts(parts: List[Part], log=print) -> List[Dict[str, Any]]:
    order = sorted(range(len(parts)), key=lambda i: -parts[i].weight * parts[i].cond_timeout)
    results: List[Optional[Dict[str, Any]]] = [None] * len(parts)
    with cf.ThreadPoolExecutor(max_workers=nproc()) as ex:
        futs = {ex.submit(analyze, parts[i]): i for i in order}
        for f in cf.as_completed(futs):
            i = futs[f]
            r = f.result()
            results[i] = r
            log("  [%s] %s paths=%s reach=%s z3=%.1fs wall=%.1fs" % (
                r.get("status"), parts[i].label, r.get("paths", {}).get("paths"), r.get("reach"),
                r.get("z3", {}).get("time_s", 0.0) or 0.0, r.get("wall_s", 0.0)))
    return results  # type: ignore


def load_known(prop: str):
    p = HERE / "known_findings.json"
    if not p.exists():
        return []
    d = json.loads(p.read_text())
    return [f for f in d.get("findings", []) if f.get("property") == prop]


class Report:
    """Collects everything a check did; writes evidence; decides the exit code."""

    def __init__(self, prop: str, tier: str, seed: int, meta: Dict[str, Any]):
        self.prop, self.tier, self.seed, self.meta = prop, tier, seed, meta
        self.t0 = time.time()
        self.part_results: List[Dict[str, Any]] = []
        self.smt_results: List[Dict[str, Any]] = []
        self.native: List[Dict[str, Any]] = []
        self.violations: List[Dict[str, Any]] = []
        self.known_hits: List[Dict[str, Any]] = []
        self.inconclusive: List[Dict[str, Any]] = []
        self.harness_errors: List[str] = []
        self.replayed = 0
        self.samples: List[Any] = []

    # -- outcome handling ---------------------------------------------------------
    def handle_counterexample(self, part: Part, res: Dict[str, Any], confirm: Optional[Callable]):
        """3-stage triage of a solver counterexample (DESIGN 3.5)."""
        kw = res.get("ce_args")
        msg = (res.get("messages") or [{}])[0].get("message", "")
        if kw is None:
            self.harness_errors.append(f"{part.label}: counterexample without arguments: {msg[:300]}")
            return
        try:
            kwargs = ast.literal_eval(kw)
        except Exception as e:  # noqa
            self.harness_errors.append(f"{part.label}: cannot parse counterexample {kw[:200]}: {e}")
            return
        rn = replay_native(part, kw)
        self.replayed += 1
        rp = rn.get("replay") or {}
        if rp.get("ok", False):
            self.harness_errors.append(
                f"{part.label}: solver counterexample {kw[:300]} does not reproduce natively "
                f"(CrossHair modelling artefact); message: {msg[:300]}")
            return
        info = {"partition": part.label, "module": part.module, "func": part.func, "sel": part.sel,
                "kwargs": kwargs, "message": msg[:500], "native": rp, "notes": rn.get("notes", [])}
        verdict = confirm(part, kwargs, rp) if confirm else {"confirmed": True, "key": part.label, "what": msg[:200]}
        info.update(verdict)
        if verdict.get("harness_error"):
            self.harness_errors.append(f"{part.label}: {verdict['harness_error']}")
            return
        if not verdict.get("confirmed"):
            self.inconclusive.append(info)
            return
        self.replayed += 1
        for k in load_known(self.prop):
            if k.get("key") == verdict.get("key"):
                info["known"] = k
                self.known_hits.append(info)
                return
        self.violations.append(info)

    # -- output -------------------------------------------------------------------
    def finish(self) -> int:
        OUT = Path(os.environ.get("VT_OUT", str(HERE)))
        out = OUT / "out" / "replays" / self.prop
        if out.exists():
            for old in out.iterdir():
                old.unlink()
        lines = []
        for i, v in enumerate(self.violations):
            out.mkdir(parents=True, exist_ok=True)
            f = out / f"violation_{i}.json"
            f.write_text(json.dumps(v, indent=1, default=repr))
            if v.get("script"):
                (out / f"violation_{i}.py").write_text(v["script"])
            lines.append(f"VIOLATION property={self.prop} replay={f}")
        for k in self.known_hits:
            lines.append(f"KNOWN-FINDING: property={self.prop} {k['known'].get('what', k.get('what'))}")
        for i, v in enumerate(self.inconclusive):
            out.mkdir(parents=True, exist_ok=True)
            f = out / f"unreached_{i}.json"
            f.write_text(json.dumps(v, indent=1, default=repr))
            lines.append(f"INCONCLUSIVE property={self.prop} unreached-state={f}")
        for e in self.harness_errors:
            lines.append(f"HARNESS-ERROR property={self.prop} {e}")

        prs = self.part_results
        paths = sum((r.get("paths") or {}).get("paths", 0) or 0 for r in prs)
        queries = sum((r.get("z3") or {}).get("queries", 0) or 0 for r in prs) + sum(
            s.get("queries", 1) for s in self.smt_results)
        ztime = sum((r.get("z3") or {}).get("time_s", 0.0) or 0.0 for r in prs) + sum(
            s.get("time_s", 0.0) for s in self.smt_results)
        unexplored = [r["label"] for r in prs if r.get("status") in ("not_confirmed", "pre_unsat")]
        exhausted = [r["label"] for r in prs if r.get("status") == "confirmed"]
        encoded = {}
        for r in prs:
            for n, h in r.get("encoded", []) or []:
                encoded[n] = h
        vac = [r["label"] for r in prs if r.get("status") == "confirmed" and not r.get("reach")]
        for lbl in vac:
            self.harness_errors.append(f"{lbl}: vacuous partition (no path reached the oracle)")
            lines.append(f"HARNESS-ERROR property={self.prop} {lbl}: vacuous partition")
        for r in prs:
            if r.get("status") == "error":
                self.harness_errors.append(f"{r.get('label')}: {r.get('error', '')[:2000]}")
                lines.append(f"HARNESS-ERROR property={self.prop} {r.get('label')}: {r.get('error', '')[:2000]}")
        cov = {
            "states": max(1, paths + sum(s.get("states", 0) for s in self.smt_results)),
            "transitions": max(1, queries),
            "traces_validated_against_impl": self.replayed + sum(n.get("cases", 0) for n in self.native),
            "samples": (self.samples or [{"partition": r.get("label"), "status": r.get("status"), "paths": r.get("paths"),
                                          "explored_cases": r.get("samples")} for r in (
                                              [r for r in prs if r.get("samples")][:6] or prs[:5])]
                        or [s.get("name") for s in self.smt_results[:5]] or ["(no partitions)"])[:12],
            "exhaustive": bool(prs or self.smt_results) and not unexplored and not self.harness_errors,
            "explanation": self.meta.get("explanation", ""),
            "technique": self.meta.get("technique", ""),
            "functions_encoded": [{"name": n, "src_sha256_16": h} for n, h in sorted(encoded.items())],
            "bounds": self.meta.get("bounds", {}).get(self.tier, self.meta.get("bounds", {})),
            "outside_claim": self.meta.get("outside", []),
            "stubs": self.meta.get("stubs", []),
            "partitions": [{"label": r.get("label"), "obligation": r.get("obligation"), "status": r.get("status"),
                            "paths": r.get("paths"), "reach": r.get("reach"), "z3": r.get("z3"),
                            "wall_s": r.get("wall_s")} for r in prs],
            "partitions_total": len(prs),
            "partitions_exhausted_confirmed": len(exhausted),
            "unexplored_remainder": unexplored,
            "smt_queries": self.smt_results,
            "native_validation": self.native,
            "solver_time_s": round(ztime, 2),
            "paths_by_status": {k: sum((r.get("paths") or {}).get(k, 0) or 0 for r in prs)
                                for k in ("paths", "confirmed", "refuted", "unknown", "ignored", "pre_failed")},
            "known_findings_hit": [k["known"] for k in self.known_hits],
            "inconclusive_unreached_states": len(self.inconclusive),
            "harness_errors": self.harness_errors,
        }
        ev = {
            "property_id": self.prop,
            "tier": self.tier,
            "seed": self.seed,
            "level": "model_checking",
            "coverage": cov,
            "assumptions": self.meta.get("assumptions", []),
            "wall_s": round(time.time() - self.t0, 2),
            "violations": len(self.violations),
        }
        evd = OUT / "evidence"
        evd.mkdir(parents=True, exist_ok=True)
        (evd / f"{self.prop}.json").write_text(json.dumps(ev, indent=1, default=repr) + "\n")
        for ln in lines:
            print(ln)
        n_conf, n_tot = len(exhausted), len(prs)
        print(f"SUMMARY property={self.prop} tier={self.tier} partitions={n_tot} exhausted_confirmed={n_conf} "
              f"unexplored={len(unexplored)} smt={len(self.smt_results)} paths={paths} queries={queries} "
              f"solver_s={ztime:.1f} wall_s={time.time() - self.t0:.1f} violations={len(self.violations)} "
              f"known={len(self.known_hits)} inconclusive={len(self.inconclusive)} harness_errors={len(self.harness_errors)}")
        if self.violations:
            return EXIT_VIOLATION
        if self.harness_errors:
            return EXIT_HARNESS
        return EXIT_OK
