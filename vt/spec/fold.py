"""Reference semantics of an IH5 container stack, written from PATCH_THEORY.md
("IH5 patches, abstractly") -- independent of the overlay implementation.

A stack is a list of raw container trees (fakeh5 `_N` roots, oldest first). `fold` applies
them in order to a plain tree and returns {abs path: (kind, value, attrs)} with kind in
{"g", "d"}, plus the root attributes under "/". `Invalid` is raised for stacks outside the
representation invariant Inv (DESIGN 3.3), i.e. stacks no sequence of API calls produces.
"""
import numpy as np

SUBST_KEY = "\x1a"
DEL_BYTES = b"\x7f"


class Invalid(Exception):
    pass


def is_del(v):
    return isinstance(v, np.void) and v.tobytes() == DEL_BYTES


def fold(roots):
    T = {"/": ("g", None, {})}
    tomb = set()

    def rm(p, mark):
        for q in [q for q in T if q == p or q.startswith(p + "/")]:
            del T[q]
        for q in [q for q in tomb if q.startswith(p + "/")]:
            tomb.discard(q)
        if mark:
            tomb.add(p)
        else:
            tomb.discard(p)

    def tombed(p):
        return any(p == q or p.startswith(q + "/") for q in tomb)

    def app_attrs(p, n, idx):
        for k in sorted(n.at):
            v = n.at[k]
            if k == SUBST_KEY:
                continue
            if is_del(v):
                if idx == 0:
                    raise Invalid("attribute deletion marker in base container")
                T[p][2].pop(k, None)
            else:
                T[p][2][k] = v

    def merge(n, path, fresh, idx):
        for k in sorted(n.ch):
            c = n.ch[k]
            p = (path if path != "/" else "") + "/" + k
            if not c.isgrp:
                if is_del(c.val):
                    if idx == 0:
                        raise Invalid("deletion marker in base container")
                    if c.at:
                        raise Invalid("attributes on a deletion marker")
                    rm(p, True)
                else:
                    rm(p, False)
                    T[p] = ("d", c.val, {})
                    app_attrs(p, c, idx)
            else:
                subst = SUBST_KEY in c.at
                if subst and idx == 0:
                    raise Invalid("substitution marker in base container")
                if idx > 0 and not subst and not c.ch and not c.at:
                    # every virtual group in a patch is created as carrier of something, and
                    # deletions leave markers behind: an empty one is produced by no history
                    raise Invalid("empty virtual group in a patch container")
                if subst or fresh:
                    rm(p, False)
                    T[p] = ("g", None, {})
                    app_attrs(p, c, idx)
                    merge(c, p, True, idx)
                elif p not in T:
                    if tombed(p):
                        raise Invalid("virtual group over a deleted path")
                    T[p] = ("g", None, {})
                    app_attrs(p, c, idx)
                    merge(c, p, True, idx)
                else:
                    app_attrs(p, c, idx)
                    if T[p][0] == "g":
                        merge(c, p, False, idx)
                    elif c.ch:
                        raise Invalid("children under a virtual node that sits over a dataset")

    for i, root in enumerate(roots):
        if SUBST_KEY in root.at:
            raise Invalid("substitution marker on the root")
        app_attrs("/", root, i)
        merge(root, "/", i == 0, i)
    return T


def plain(root):
    """The user-visible tree of a plain (single, marker-free) container."""
    return fold([root])
