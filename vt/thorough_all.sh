#!/bin/bash
# run every thorough check once, record wall time and summary (sizing run)
cd "$(dirname "$0")/.."
LIST="${@:-C16 C14 C18 C19 C04 C11 C15 C08 C03 C10 C07 C20 C05 C06 C02 C09 C01}"
for p in $LIST; do
  s=$(date +%s)
  timeout 7200 ./check $p --tier thorough > thorough_$p.log 2>&1; rc=$?
  e=$(date +%s)
  echo "$p rc=$rc wall=$((e-s))s $(grep ^SUMMARY thorough_$p.log | cut -c1-260)"
done
