#!/bin/bash
# debugging helper: ./vt/w.sh MODULE FUNC [worker args...]  -> compact result
cd /verif; export PYTHONPATH=/verif${PP:+:$PP}
/verif/.venv/bin/python -m vt.worker "$@" 2>/tmp/w.err | grep ^VTRESULT | cut -c10- | /verif/.venv/bin/python -c "
import sys,json
for l in sys.stdin:
    d=json.loads(l); d.pop('encoded',None)
    print(d.get('func'), d.get('part'), '=>', d.get('status'), 'paths',d.get('paths'),'reach',d.get('reach'),'z3',d.get('z3'),'wall',d.get('wall_s'))
    for m in d.get('messages',[]):
        print('   ', m['state'], m['message'][:600]); 
        if m.get('tb'): print('      tb:', m['tb'][-600:])
    if d.get('error'): print('ERR', d['error'])
    if d.get('replay'): print('REPLAY', d['replay'])
    if d.get('ce_args'): print('   CE', d['ce_args'])
"
