"""Print a markdown table of what the last run of every check covered (from evidence/*.json)."""
import json
from pathlib import Path

HERE = Path(__file__).resolve().parent.parent
print("| check | tier | partitions (exhausted) | unexplored | paths | solver queries | solver s | wall s | known findings |")
print("|---|---|---|---|---|---|---|---|---|")
for f in sorted((HERE / "evidence").glob("C*.json")):
    d = json.loads(f.read_text())
    c = d.get("coverage", {})
    print(f"| {d['property_id']} | {d.get('tier')} | {c.get('partitions_total')} ({c.get('partitions_exhausted_confirmed')}) | "
          f"{len(c.get('unexplored_remainder', []))} | {c.get('states')} | {c.get('transitions')} | "
          f"{round(c.get('solver_time_s', 0))} | {round(d.get('wall_s', 0))} | {len(c.get('known_findings_hit', []))} |")
