"""Stub fidelity: run op scripts against real h5py and against fakeh5, compare step by step.

This validates the environment stub (Serval-style translator validation). It is sampling and
decides no property; a disagreement is a harness error.
"""
import random
import shutil
import tempfile
from pathlib import Path

import numpy as np

# canonical spellings only ("a/", ".", "//a" are outside every claim)
PATHS = ["a", "b", "a/x", "a/y", "a/x/q", "/a", "/a/x", "b/c", "/b", "c/d/e", "/"]
KEYS = ["k", "m", "\x1a"]
VALS = [0, 1, 7, "s", b"by", np.void(b"\x7f"), "EMPTY"]


def _val(mod, v):
    return mod.Empty(None) if isinstance(v, str) and v == "EMPTY" else v


def _dv(v):
    from vt.substrate.fakeh5 import _dv as d, Empty as FE
    import h5py as real
    if isinstance(v, real.Empty):
        return ("empty",)
    return d(v)


def dump(mod, f):
    out = {}

    def cb(name, node):
        kind = "g" if isinstance(node, mod.Group) else "d"
        ats = {k: _dv(v) for k, v in node.attrs.items()}
        out[name] = (kind, ats, None if kind == "g" else _dv(node[()]))

    f.visititems(cb)
    out["/"] = ("g", {k: _dv(v) for k, v in f.attrs.items()}, None)
    return out


def gen_script(rng, n):
    ops = []
    for _ in range(n):
        k = rng.randrange(20)
        p, q = rng.choice(PATHS), rng.choice(PATHS)
        key, v = rng.choice(KEYS), rng.choice(VALS)
        ops.append([("create_group", p), ("set", p, v), ("del", p), ("contains", p), ("get", p), ("attr_set", p, key, v),
                    ("attr_del", p, key), ("attr_get", p, key), ("require_group", p), ("require_dataset", p, v),
                    ("copy", p, q), ("move", p, q), ("keys", p), ("visit",), ("len", p), ("attr_keys", p), ("create_dataset", p, v), ("copy_shallow", p, q), ("copy_noattrs", p, q), ("copy_node", p, q)][k])
    return ops


CORPUS = [
    [("create_group", "a"), ("set", "a/x", 1), ("attr_set", "a", "k", 2), ("attr_set", "a/x", "k", "s"), ("visit",),
     ("copy", "a", "b"), ("move", "a/x", "b/y"), ("del", "a"), ("visit",), ("keys", "/"), ("contains", "a")],
    [("set", "a/x/q", 1), ("create_group", "a/x"), ("create_group", "a/x/q/r"), ("set", "a", 2), ("del", "a/x/q"),
     ("del", "a/x/q"), ("require_group", "a/x"), ("require_group", "a/x/q"), ("require_dataset", "a", 3)],
    [("create_group", "/a"), ("create_group", "a"), ("set", "b", "EMPTY"), ("get", "b"), ("attr_set", "/", "k", 1),
     ("attr_keys", "/"), ("attr_del", "/", "k"), ("attr_del", "/", "k"), ("attr_get", "b", "zz"), ("len", "/")],
    [("set", "a", np.void(b"\x7f")), ("get", "a"), ("set", "b/c", b"by"), ("get", "b/c"), ("copy", "b", "a/x"),
     ("copy", "b", "c/d/e"), ("move", "b", "b"), ("move", "zz", "y"), ("copy", "zz", "y"), ("visit",)],
]


def apply(mod, f, op):
    """Returns a comparable outcome."""
    try:
        kind = op[0]
        if kind == "create_group":
            f.create_group(op[1])
            return "ok"
        if kind == "set":
            f[op[1]] = _val(mod, op[2])
            return "ok"
        if kind == "create_dataset":
            f.create_dataset(op[1], data=_val(mod, op[2]))
            return "ok"
        if kind == "del":
            del f[op[1]]
            return "ok"
        if kind == "contains":
            return ("ok", op[1] in f)
        if kind == "get":
            n = f[op[1]]
            return ("ok", "g" if isinstance(n, mod.Group) else ("d", _dv(n[()])), n.name)
        if kind == "attr_set":
            f[op[1]].attrs[op[2]] = _val(mod, op[3])
            return "ok"
        if kind == "attr_del":
            del f[op[1]].attrs[op[2]]
            return "ok"
        if kind == "attr_get":
            return ("ok", _dv(f[op[1]].attrs[op[2]]))
        if kind == "attr_keys":
            return ("ok", sorted(f[op[1]].attrs.keys()), len(f[op[1]].attrs), op[2] in f[op[1]].attrs if len(op) > 2 else None)
        if kind == "require_group":
            return ("ok", f.require_group(op[1]).name)
        if kind == "require_dataset":
            v = op[2] if isinstance(op[2], int) else 5
            if op[1] in f and isinstance(f[op[1]], mod.Dataset) and _dv(f[op[1]][()])[0] != "int":
                return "skipped"  # dtype compatibility of require_dataset is not modelled
            return ("ok", f.require_dataset(op[1], shape=(), dtype="i8", data=v).name)
        if kind == "copy":
            f.copy(op[1], op[2])
            return "ok"
        if kind == "copy_shallow":
            f.copy(op[1], op[2], shallow=True)
            return "ok"
        if kind == "copy_noattrs":
            f.copy(op[1], op[2], without_attrs=True)
            return "ok"
        if kind == "copy_node":
            f.copy(f[op[1]], f.require_group(op[2]))
            return "ok"
        if kind == "move":
            src = "/" + "/".join(x for x in op[1].split("/") if x and x != ".")
            dst = "/" + "/".join(x for x in op[2].split("/") if x and x != ".")
            if dst.startswith(src + "/") or src == "/":
                return "skipped"  # moving a node into its own subtree: excluded by the properties
            f.move(op[1], op[2])
            return "ok"
        if kind == "keys":
            n = f[op[1]]
            return ("ok", list(n.keys()), [k for k in n], [(k, v.name) for k, v in n.items()])
        if kind == "len":
            return ("ok", len(f[op[1]]))
        if kind == "visit":
            names = []
            f.visititems(lambda n, o: names.append((n, o.name)))
            return ("ok", names)
        raise AssertionError(op)
    except (KeyError, ValueError, TypeError, RuntimeError, OSError, AttributeError) as e:
        return ("exc", type(e).__name__)


def run(seed=0, nscripts=150, length=14):
    import h5py as real
    import vt.substrate.fakeh5 as fake

    assert real.__name__ == "h5py" and hasattr(real, "h5f"), "real h5py expected here"
    rng = random.Random(seed)
    scripts = list(CORPUS) + [gen_script(rng, length) for _ in range(nscripts)]
    tmp = Path(tempfile.mkdtemp(prefix="vt_conf_"))
    steps = 0
    errs = []
    try:
        for si, sc in enumerate(scripts):
            fake.reset()
            rf = real.File(tmp / f"s{si}.h5", "w")
            ff = fake.File(f"/s{si}.h5", "w")
            for oi, op in enumerate(sc):
                a, b = apply(real, rf, op), apply(fake, ff, op)
                if a != b:
                    errs.append(f"script {si} step {oi} {op}: real={a} fake={b}; script={sc[:oi + 1]}")
                    break
                da, db = dump(real, rf), dump(fake, ff)
                if da != db:
                    errs.append(f"script {si} step {oi} {op}: trees differ real={da} fake={db}; script={sc[:oi + 1]}")
                    break
                steps += 1
            rf.close()
            ff.close()
            (tmp / f"s{si}.h5").unlink()
        if errs:
            raise AssertionError("%d disagreements:\n" % len(errs) + "\n".join(errs[:12]))
        # file-level behaviour: modes, user block, read-only enforcement
        p = tmp / "m.h5"
        for mod, name in ((real, p), (fake, "/m.h5")):
            res = []
            for mode in ("r", "r+", "x", "w-", "a", "x", "r", "bogus"):
                try:
                    f = mod.File(name, mode, **({"userblock_size": 1024} if mode in ("x", "w-", "a", "w") else {}))
                    try:
                        f["z" + str(len(res))] = 1
                        w = "writable"
                    except (ValueError, KeyError, OSError) as e:
                        w = "ro:" + type(e).__name__
                    res.append((mode, "ok", w, f.userblock_size, sorted(f.keys()), bool(f)))
                    f.close()
                    res.append(bool(f))
                except (OSError, ValueError) as e:
                    res.append((mode, "exc", "OSError" if isinstance(e, OSError) else type(e).__name__))
            if mod is real:
                want = res
            else:
                assert res == want, f"file modes differ:\nreal={want}\nfake={res}"
            steps += len(res)
    finally:
        shutil.rmtree(tmp, ignore_errors=True)
    return steps


def precheck() -> int:
    from vt.part import SEL

    return run(seed=int(SEL.get("seed", 0)), nscripts=int(SEL.get("n", 120)))
