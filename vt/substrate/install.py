"""Put the in-memory HDF5/file-system substrate under the real metador_core.ih5 code.

Import this module *before* anything from metador_core. Afterwards the real, unmodified
`ih5/overlay.py`, `ih5/record.py`, `ih5/manifest.py`, `ih5/skeleton.py` run on `fakeh5`.
"""
import sys
import uuid as _uuid

import vt.npshim  # noqa: F401
import vt.substrate.fakeh5 as fakeh5

assert "metador_core.ih5.overlay" not in sys.modules, "install the substrate before importing metador_core"
sys.modules["h5py"] = fakeh5

import metador_core.ih5.manifest as MF  # noqa: E402
import metador_core.ih5.overlay as OV  # noqa: E402
import metador_core.ih5.record as REC  # noqa: E402
import metador_core.ih5.skeleton as SK  # noqa: E402

REC.open = fakeh5.fake_open
REC.Path = fakeh5.FakePath
MF.open = fakeh5.fake_open
MF.Path = fakeh5.FakePath

_counter = [0]


def fresh_uuid():
    """uuid1 stand-in: fresh, deterministic, never colliding."""
    _counter[0] += 1
    return _uuid.UUID(int=(0xABCD << 96) + _counter[0])


REC.uuid1 = fresh_uuid
MF.uuid1 = fresh_uuid


def _parse_file(cls, path):
    return cls.parse_raw(bytes(fakeh5.FS[str(path)]))


MF.IH5Manifest.parse_file = classmethod(_parse_file)


def reset():
    fakeh5.reset()
    _counter[0] = 0


def make_substrate_native():
    """Run substrate methods with CrossHair tracing suspended (like the C library they stand for);
    symbolic arguments are realised at the boundary. Called by harness modules under tracing."""
    import functools

    from crosshair.core import deep_realize
    from crosshair.tracers import NoTracing, is_tracing

    def wrap(fn):
        if getattr(fn, "_vt_native", False):
            return fn

        @functools.wraps(fn)
        def w(*a, **kw):
            if not is_tracing():
                return fn(*a, **kw)
            with NoTracing():
                a = tuple(deep_realize(x) if not isinstance(x, (fakeh5._Node, fakeh5.AttributeManager)) else x for x in a)
                kw = {k: deep_realize(v) for k, v in kw.items()}
                return fn(*a, **kw)

        w._vt_native = True
        return w

    for cls in (fakeh5.AttributeManager, fakeh5._Node, fakeh5.Dataset, fakeh5.Group, fakeh5.File):
        for name, val in list(vars(cls).items()):
            if callable(val) and not isinstance(val, (staticmethod, classmethod, type)) and (
                    not name.startswith("__") or name in ("__getitem__", "__setitem__", "__delitem__", "__contains__",
                                                          "__iter__", "__len__", "__init__", "__bool__", "__eq__")):
                setattr(cls, name, wrap(val))
            elif isinstance(val, property) and val.fget is not None:
                setattr(cls, name, property(wrap(val.fget)))
