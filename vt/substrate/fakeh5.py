"""Pure-Python stand-in for the subset of h5py used by metador_core (environment stub).

Installed as sys.modules["h5py"] *before* metador_core is imported (vt.substrate.install).
A global registry FS maps file names to stores (tree, user block, write-version); plain byte
files (manifests) live in the same registry. `conformance.py` compares this module step by
step with the real h5py on op scripts (tree dumps, return values, exception classes).

Abstract payload: the bytes after the user block are b"\\x89HDF" + "v<write-version>", so the
real hashsum_file/qualified_hashsum give equal hashes iff the store was not written in between
(SHA-256 idealised as injective on the write history).
"""
from __future__ import annotations

import fnmatch
from pathlib import PurePosixPath

import numpy as np

__version__ = "fake-3.x"


class Empty:
    def __init__(self, dtype=None):
        self.dtype = dtype

    def __eq__(self, o):
        return isinstance(o, Empty) and self.dtype == o.dtype

    def __hash__(self):
        return 0

    def __repr__(self):
        return "Empty(dtype=%r)" % (self.dtype,)


class SoftLink:
    def __init__(self, path=""):
        self.path = path


class ExternalLink:
    def __init__(self, filename="", path=""):
        self.filename, self.path = filename, path


class HardLink:
    pass


class _H5R:
    class Reference:
        pass


h5r = _H5R()


class _N:
    """Raw tree node."""

    __slots__ = ("isgrp", "ch", "at", "val")

    def __init__(self, isgrp, val=None):
        self.isgrp = isgrp
        self.ch = {} if isgrp else None
        self.at = {}
        self.val = val

    def clone(self):
        c = _N(self.isgrp, self.val)
        c.at = dict(self.at)
        if self.isgrp:
            c.ch = {k: v.clone() for k, v in self.ch.items()}
        return c

    def dump(self):
        if self.isgrp:
            return ("g", {k: _dv(v) for k, v in sorted(self.at.items())},
                    {k: v.dump() for k, v in sorted(self.ch.items())})
        return ("d", {k: _dv(v) for k, v in sorted(self.at.items())}, _dv(self.val))


def _dv(v):
    """Comparable rendering of a stored value."""
    if isinstance(v, np.void):
        return ("void", v.tobytes())
    if isinstance(v, Empty):
        return ("empty",)
    if isinstance(v, (bytes, np.bytes_)):
        return ("bytes", bytes(v))
    if isinstance(v, str):
        return ("str", v)
    if isinstance(v, (bool, np.bool_)):
        return ("bool", bool(v))
    if isinstance(v, (int, np.integer)):
        return ("int", int(v))
    if isinstance(v, (float, np.floating)):
        return ("float", float(v))
    if isinstance(v, np.ndarray):
        return ("array", v.dtype.kind, v.tolist())
    return ("other", repr(v))


def _segs(path):
    return [s for s in path.split("/") if s and s != "."]


class AttributeManager:
    def __init__(self, file, node):
        self._f = file
        self._n = node

    def keys(self):
        return sorted(self._n.at.keys())

    def __iter__(self):
        return iter(self.keys())

    def __len__(self):
        return len(self._n.at)

    def __contains__(self, k):
        return k in self._n.at

    def __getitem__(self, k):
        if k not in self._n.at:
            raise KeyError("Can't open attribute (can't locate attribute: %r)" % (k,))
        return self._n.at[k]

    def __setitem__(self, k, v):
        self._f._w()
        if type(v) is bytes:
            v = v.decode("utf-8")  # h5py reads byte-string attributes back as str
        self._n.at[k] = v

    def __delitem__(self, k):
        self._f._w()
        if k not in self._n.at:
            raise KeyError("Can't delete attribute (can't locate attribute: %r)" % (k,))
        del self._n.at[k]

    def items(self):
        return [(k, self._n.at[k]) for k in self.keys()]

    def values(self):
        return [self._n.at[k] for k in self.keys()]

    def get(self, k, d=None):
        return self._n.at.get(k, d)


class _Node:
    def __init__(self, file, path, node):
        self._file = file
        self._path = path
        self._n = node

    @property
    def name(self):
        return self._path

    @property
    def file(self):
        return self._file

    @property
    def attrs(self):
        self._file._o()
        return AttributeManager(self._file, self._n)

    @property
    def parent(self):
        p = "/".join(self._path.split("/")[:-1]) or "/"
        return self._file[p]

    def __eq__(self, o):
        return isinstance(o, _Node) and self._n is o._n

    def __hash__(self):
        return id(self._n)

    def __bool__(self):
        return bool(self._file._open)


class Dataset(_Node):
    @property
    def ndim(self):
        v = self._n.val
        return v.ndim if isinstance(v, np.ndarray) else 0

    @property
    def shape(self):
        v = self._n.val
        return v.shape if isinstance(v, np.ndarray) else ()

    @property
    def dtype(self):
        return getattr(self._n.val, "dtype", None)

    def __getitem__(self, key):
        self._file._o()
        v = self._n.val
        if key == () or key is Ellipsis:
            return v
        return v[key]

    def __setitem__(self, key, val):
        self._file._w()
        if key == () or key is Ellipsis:
            self._n.val = _store_ds(val)
        else:
            self._n.val[key] = val


def _store_ds(data):
    if type(data) is str:
        return data.encode("utf-8")  # h5py reads variable-length strings back as bytes
    return data


class Group(_Node):
    def _abs(self, path):
        if path.startswith("/"):
            return "/" + "/".join(_segs(path))
        base = _segs(self._path)
        return "/" + "/".join(base + _segs(path))

    def _lookup(self, path):
        n = self._file._root
        for s in _segs(self._abs(path)):
            if not n.isgrp or s not in n.ch:
                return None
            n = n.ch[s]
        return n

    def _wrap(self, path, n):
        return (Group if n.isgrp else Dataset)(self._file, path, n)

    def __contains__(self, path):
        if not self._file._open or path == "":
            return False
        return self._lookup(path) is not None

    def __getitem__(self, path):
        if not self._file._open:
            raise KeyError("Unable to open object (invalid identifier type to function)")
        if isinstance(path, bytes):
            path = path.decode()
        n = self._lookup(path) if path != "" else None
        if n is None:
            raise KeyError("Unable to open object (component not found): %s" % (path,))
        return self._wrap(self._abs(path), n)

    def get(self, path, default=None, getclass=False, getlink=False):
        n = self._lookup(path) if path else None
        return default if n is None else self._wrap(self._abs(path), n)

    def _mk(self, path, new, exc=ValueError):
        """Link `new` at `path`, creating missing intermediate groups (nothing is created if
        the operation fails). `exc`: exception class h5py raises for this entry point."""
        self._file._w()
        segs = _segs(self._abs(path))
        if not segs:
            raise exc("Unable to create (name already exists)")
        n = self._file._root
        cur = n
        for s in segs[:-1]:
            if not cur.isgrp:
                raise exc("Unable to create (message type not found)")
            if s not in cur.ch:
                cur = None
                break
            cur = cur.ch[s]
        if cur is not None:
            if not cur.isgrp:
                raise exc("Unable to create (message type not found)")
            if segs[-1] in cur.ch:
                raise exc("Unable to create (name already exists)")
        for s in segs[:-1]:
            if s not in n.ch:
                n.ch[s] = _N(True)
            n = n.ch[s]
        n.ch[segs[-1]] = new
        return self._wrap("/" + "/".join(segs), new)

    def create_group(self, path, track_order=None):
        return self._mk(path, _N(True))

    def create_dataset(self, path, shape=None, dtype=None, data=None, **kw):
        self._file._w()
        if path is None:  # anonymous dataset: exists in the file, linked nowhere (until assigned to a name)
            if data is None and shape is None:
                raise TypeError("One of data, shape or dtype must be specified")
            return Dataset(self._file, None, _N(False, _store_ds(data)))
        segs = _segs(self._abs(path))
        if len(segs) > 1:  # h5py: parent obtained through require_group (before the value is looked at)
            self.require_group("/" + "/".join(segs[:-1]))
        if data is None and shape is None:
            raise TypeError("One of data, shape or dtype must be specified")
        return self._mk(path, _N(False, _store_ds(data)))

    def __setitem__(self, path, val):
        if isinstance(val, _Node):  # hard link
            self._mk(path, val._n, OSError)
            return
        if isinstance(val, (SoftLink, ExternalLink)):
            raise NotImplementedError("links are not modelled")
        if val is None:  # h5py: anonymous dataset is created first -> fails before anything is linked
            raise TypeError("One of data, shape or dtype must be specified")
        self._mk(path, _N(False, _store_ds(val)), OSError)

    def __delitem__(self, path):
        self._file._w()
        segs = _segs(self._abs(path))
        n = self._file._root
        for s in segs[:-1]:
            if not n.isgrp or s not in n.ch:
                raise KeyError("Couldn't delete link (component not found): %s" % (path,))
            n = n.ch[s]
        if not segs or not n.isgrp or segs[-1] not in n.ch:
            raise KeyError("Couldn't delete link (name doesn't exist): %s" % (path,))
        del n.ch[segs[-1]]

    def keys(self):
        self._file._o()
        return sorted(self._n.ch.keys())

    def __iter__(self):
        return iter(self.keys())

    def __reversed__(self):
        return reversed(self.keys())

    def __len__(self):
        self._file._o()
        return len(self._n.ch)

    def items(self):
        return [(k, self[k]) for k in self.keys()]

    def values(self):
        return [self[k] for k in self.keys()]

    def visititems(self, func):
        def rec(g, pre):
            for k in g.keys():
                c = g[k]
                r = func(pre + k, c)
                if r is not None:
                    return r
                if isinstance(c, Group):
                    r = rec(c, pre + k + "/")
                    if r is not None:
                        return r
            return None

        return rec(self, "")

    def visit(self, func):
        return self.visititems(lambda n, _: func(n))

    def require_group(self, path):
        n = self._lookup(path)
        if n is None:
            return self.create_group(path)
        if not n.isgrp:
            raise TypeError("Incompatible object (Dataset) already exists")
        return self._wrap(self._abs(path), n)

    def require_dataset(self, path, shape=None, dtype=None, exact=False, **kw):
        n = self._lookup(path)
        if n is None:
            return self.create_dataset(path, shape=shape, dtype=dtype, **kw)
        if n.isgrp:
            raise TypeError("Incompatible object (Group) already exists")
        # (shape/dtype compatibility checks of h5py are not modelled: values are opaque scalars)
        return self._wrap(self._abs(path), n)

    def copy(self, source, dest, name=None, shallow=False, expand_soft=False, expand_external=False,
             expand_refs=False, without_attrs=False):
        if isinstance(source, str):
            sn = self._lookup(source) if source else None
            if sn is None:
                raise RuntimeError("Unable to copy object (object doesn't exist)")
            src = sn
        else:
            src = source._n
        c = src.clone()
        if without_attrs:
            def strip(n):
                n.at = {}
                if n.isgrp:
                    for ch in n.ch.values():
                        strip(ch)
            strip(c)
        if shallow and c.isgrp:
            for ch in c.ch.values():
                if ch.isgrp:
                    ch.ch = {}
        if isinstance(dest, str):
            self._mk(dest, c, RuntimeError)
        else:
            nm = name if name is not None else (
                source.split("/")[-1] if isinstance(source, str) else source.name.split("/")[-1])
            dest._mk(nm, c, RuntimeError)

    def move(self, source, dest):
        self._file._w()
        if source == dest:  # (h5py: literal comparison; "a" -> "/a" raises "already exists")
            return
        n = self._lookup(source) if source else None
        if n is None or not _segs(self._abs(source)):
            raise ValueError("Unable to move link (name doesn't exist)")
        self._mk(dest, n, ValueError)
        del self[source]


class _Store:
    def __init__(self, ub_size):
        self.root = _N(True)
        self.ub = bytearray(ub_size or 0)
        self.version = 0
        self.mtime = 0  # bumped by every mutation of tree or user block (frame-condition oracle)

    def payload(self):
        return b"\x89HDF" + ("payload-v%d" % self.version).encode()

    def snapshot(self):
        return (bytes(self.ub), self.version, self.root.dump())


class Crash(BaseException):
    """Simulated process death (fault injection): raised by the N-th mutating primitive."""


CRASH = {"at": None, "n": 0}


def _tick(kind, name):
    CRASH["n"] += 1
    if CRASH["at"] is not None and CRASH["n"] == CRASH["at"]:
        CRASH["at"] = None
        raise Crash("%s %s" % (kind, name))


FS = {}  # name -> _Store | bytearray
LOG = []  # write log: (kind, filename) in order -- used for commit-ordering checks
_OPEN_RW = {}  # name -> number of writable handles (h5py refuses a second writer)


class File(Group):
    def __init__(self, name="fake", mode="r", userblock_size=None, **kw):
        name = str(name)
        if mode not in ("r", "r+", "w", "w-", "x", "a"):
            raise ValueError("Invalid mode; must be one of r, r+, w, w-, x, a")
        if mode in ("x", "w-"):
            if name in FS:
                raise FileExistsError("Unable to create file (file exists): %s" % name)
            _tick("create", name)
            st = FS[name] = _Store(userblock_size)
            LOG.append(("create", name))
            eff = "r+"
        elif mode == "w":
            _tick("truncate", name)
            st = FS[name] = _Store(userblock_size)
            LOG.append(("truncate", name))
            eff = "r+"
        elif mode == "a":
            st = FS.get(name)
            if st is None:
                _tick("create", name)
                st = FS[name] = _Store(userblock_size)
                LOG.append(("create", name))
            eff = "r+"
        else:
            if name not in FS:
                raise FileNotFoundError("Unable to open file (unable to open file: name = '%s')" % name)
            st = FS[name]
            eff = mode
        if not isinstance(st, _Store):
            raise OSError("Unable to open file (file signature not found)")
        self._store = st
        self._root = st.root
        super().__init__(self, "/", self._root)
        self.filename = name
        self.mode = eff
        self._open = True

    @property
    def userblock_size(self):
        return len(self._store.ub)

    def _o(self):
        if not self._open:
            raise ValueError("Invalid location identifier (invalid location identifier)")

    def _w(self):
        self._o()
        if self.mode == "r":
            raise ValueError("Unable to modify (file is read-only)")
        _tick("h5write", self.filename)
        self._store.version += 1
        self._store.mtime += 1
        LOG.append(("h5write", self.filename))

    def __bool__(self):
        return self._open

    def close(self):
        self._open = False

    def __enter__(self):
        return self

    def __exit__(self, *a):
        self.close()

    def flush(self):
        pass

    def __repr__(self):
        return "<fake HDF5 file %r (mode %s)>" % (self.filename, self.mode)


# -------------------------------------------------------------------------------------------
# byte-level view of the registry (for the real `open`-based user block / manifest code)

class _Stream:
    def __init__(self, name, mode):
        self.name, self.mode, self.pos = name, mode, 0
        self.st = FS[name]

    def _bytes(self):
        if isinstance(self.st, _Store):
            return bytes(self.st.ub) + self.st.payload()
        return bytes(self.st)

    def seek(self, p, whence=0):
        self.pos = p if whence == 0 else (self.pos + p if whence == 1 else len(self._bytes()) + p)
        return self.pos

    def tell(self):
        return self.pos

    def read(self, n=-1):
        b = self._bytes()
        r = b[self.pos:] if n is None or n < 0 else b[self.pos:self.pos + n]
        self.pos += len(r)
        return r

    def write(self, data):
        if "r" in self.mode and "+" not in self.mode:
            raise OSError("not writable")
        _tick("rawwrite", self.name)
        if isinstance(self.st, _Store):
            if self.pos + len(data) > len(self.st.ub):
                raise AssertionError("write beyond the user block would corrupt the HDF5 payload")
            self.st.ub[self.pos:self.pos + len(data)] = data
            self.st.mtime += 1
        else:
            self.st[self.pos:self.pos + len(data)] = data
        LOG.append(("rawwrite", self.name))
        self.pos += len(data)
        return len(data)

    def flush(self):
        pass

    def close(self):
        pass

    def __enter__(self):
        return self

    def __exit__(self, *a):
        return False


def fake_open(name, mode="r", *a, **kw):
    name = str(name)
    if "w" in mode:
        _tick("truncate", name)
        FS[name] = bytearray()
        LOG.append(("truncate", name))
    if name not in FS:
        raise FileNotFoundError(name)
    return _Stream(name, mode)


class FakePath(PurePosixPath):
    def is_file(self):
        return str(self) in FS

    def is_dir(self):
        return not self.is_file()

    def exists(self):
        return self.is_file()

    def unlink(self, missing_ok=False):
        if str(self) not in FS:
            if missing_ok:
                return
            raise FileNotFoundError(str(self))
        _tick("unlink", str(self))
        del FS[str(self)]
        LOG.append(("unlink", str(self)))

    def glob(self, pat):
        pre = str(self).rstrip("/") + "/"
        if str(self) == ".":
            pre = ""
        return [FakePath(k) for k in sorted(FS) if k.startswith(pre) and "/" not in k[len(pre):]
                and fnmatch.fnmatchcase(k[len(pre):], pat)]

    def resolve(self):
        return self


def reset():
    FS.clear()
    del LOG[:]
    CRASH["at"], CRASH["n"] = None, 0


def snapshot():
    """Comparable snapshot of the whole registry."""
    return {k: (v.snapshot() if isinstance(v, _Store) else ("raw", bytes(v))) for k, v in FS.items()}


def clone_fs():
    """Deep copy of the registry (for running two continuations from the same on-disk state)."""
    out = {}
    for k, v in FS.items():
        if isinstance(v, _Store):
            c = _Store(0)
            c.root, c.ub, c.version, c.mtime = v.root.clone(), bytearray(v.ub), v.version, v.mtime
            out[k] = c
        else:
            out[k] = bytearray(v)
    return out


def restore_fs(snap):
    FS.clear()
    for k, v in snap.items():
        if isinstance(v, _Store):
            c = _Store(0)
            c.root, c.ub, c.version, c.mtime = v.root.clone(), bytearray(v.ub), v.version, v.mtime
            FS[k] = c
        else:
            FS[k] = bytearray(v)
