#!/bin/bash
# For every stored seed: demo exits 0 on the scratch worktree at the current HEAD and 1 with the patch applied.
#   vt/seeddemos.sh <scratch worktree at HEAD>
WT=$1
HEAD=$(git -C $WT log --format=%h | head -1)
for D in /verif/seeded/*/; do
  L=$(basename $D)
  [ -f $D/patch.diff ] || continue
  git -C $WT checkout -q -- src
  C=$(cd $WT && PYTHONPATH=$WT/src timeout 120 /venv/bin/python $D/demo.py >/dev/null 2>&1; echo $?)
  if git -C $WT apply $D/patch.diff 2>/dev/null; then
    S=$(cd $WT && PYTHONPATH=$WT/src timeout 120 /venv/bin/python $D/demo.py >/dev/null 2>&1; echo $?)
  else
    S=APPLYFAIL
  fi
  git -C $WT checkout -q -- src
  echo "$L clean=$C seeded=$S"
  python3 - <<PY
import json
p="$D/meta.json"; m=json.load(open(p)); m["demo_on_head"]={"head":"$HEAD","clean":"$C","seeded":"$S"}; json.dump(m,open(p,"w"),indent=1)
PY
done
