#!/bin/bash
# run every quick check once on /repo (final evidence run); prints rc + summary per property
cd "$(dirname "$0")/.."
for p in C01 C02 C03 C04 C05 C06 C07 C08 C09 C10 C11 C14 C15 C16 C18 C19 C20; do
  s=$(date +%s)
  timeout 3600 ./check $p --tier quick > /tmp/quick_$p.log 2>&1; rc=$?
  e=$(date +%s)
  echo "$p rc=$rc wall=$((e-s))s $(grep ^SUMMARY /tmp/quick_$p.log | cut -c1-230)"
  grep -E "^(VIOLATION|HARNESS-ERROR|INCONCLUSIVE|KNOWN-FINDING)" /tmp/quick_$p.log | cut -c1-300 | head -5
done
