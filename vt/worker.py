"""Analyse (or natively replay) ONE partition of a harness in this process.

usage: python -m vt.worker MODULE FUNC --part JSON [--cond-timeout S] [--path-timeout S]
       python -m vt.worker MODULE FUNC --part JSON --replay REPR_OF_KWARGS

Prints a single line `VTRESULT <json>` on stdout.

The partition selector (values fixed for this partition) is handed to the harness
module through vt.part.SEL; the remaining parameters of FUNC are CrossHair symbolic
values. Everything under /repo/src is executed as it is in the working tree.
"""
import argparse
import ast
import hashlib
import importlib
import inspect
import json
import os
import sys
import time
import traceback


def _hash_encoded(mod):
    out = []
    for obj in getattr(mod, "ENCODED", []):
        try:
            o = obj
            if isinstance(o, property):
                o = o.fget
            o = getattr(o, "__func__", o)
            o = getattr(o, "__wrapped__", o) if not inspect.isfunction(o) and not inspect.isclass(o) else o
            src = inspect.getsource(o)
            name = getattr(o, "__module__", "?") + "." + getattr(o, "__qualname__", repr(o))
            out.append([name, hashlib.sha256(src.encode()).hexdigest()[:16]])
        except Exception as e:  # noqa
            out.append([repr(obj), "unhashable:" + type(e).__name__])
    return out


def main():
    ap = argparse.ArgumentParser()
    ap.add_argument("module")
    ap.add_argument("func")
    ap.add_argument("--part", default="{}")
    ap.add_argument("--cond-timeout", type=float, default=60.0)
    ap.add_argument("--path-timeout", type=float, default=20.0)
    ap.add_argument("--replay", default=None)
    ap.add_argument("--max-iter", type=int, default=0)
    ap.add_argument("--verbose", action="store_true")
    a = ap.parse_args()

    import vt.part as part

    part.SEL.update(json.loads(a.part))
    t0 = time.time()
    res = {"module": a.module, "func": a.func, "part": part.SEL.copy()}

    if a.replay is not None:
        import numpy as np

        if not hasattr(np, "cumproduct"):
            np.cumproduct = np.cumprod
        part.NATIVE = True
        mod = importlib.import_module(a.module)
        fn = getattr(mod, a.func)
        kwargs = ast.literal_eval(a.replay)
        try:
            ret = fn(**kwargs)
            res["replay"] = {"returned": repr(ret), "ok": bool(ret), "exc": None}
        except Exception as e:  # noqa
            res["replay"] = {
                "returned": None,
                "ok": False,
                "exc": type(e).__name__ + ": " + str(e),
                "tb": traceback.format_exc()[-1500:],
            }
        res["notes"] = part.NOTES[:20]
        res["wall_s"] = time.time() - t0
        print("VTRESULT " + json.dumps(res))
        return

    import vt.shims  # noqa: F401
    import crosshair.core as core
    import z3
    from crosshair.condition_parser import Conditions
    from crosshair.options import AnalysisOptionSet
    from crosshair.statespace import MessageType, VerificationStatus
    from crosshair.util import IgnoreAttempt, UnexploredPath, set_debug

    if a.verbose:
        set_debug(True)

    # --- solver statistics -------------------------------------------------------
    zst = {"queries": 0, "time": 0.0, "unknown": 0}
    _zcheck = z3.Solver.check

    def zcheck(self, *args):
        s = time.perf_counter()
        r = _zcheck(self, *args)
        zst["time"] += time.perf_counter() - s
        zst["queries"] += 1
        if str(r) == "unknown":
            zst["unknown"] += 1
        return r

    z3.Solver.check = zcheck

    # --- path statistics ---------------------------------------------------------
    pst = {"paths": 0, "confirmed": 0, "refuted": 0, "unknown": 0, "ignored": 0, "pre_failed": 0}
    _attempt = core.attempt_call

    def attempt(conditions, short_circuit, enforced):
        pst["paths"] += 1
        try:
            ca = _attempt(conditions, short_circuit, enforced)
        except UnexploredPath:
            pst["unknown"] += 1
            raise
        except IgnoreAttempt:
            pst["ignored"] += 1
            raise
        st = ca.verification_status
        if st == VerificationStatus.CONFIRMED:
            pst["confirmed"] += 1
        elif st == VerificationStatus.REFUTED:
            pst["refuted"] += 1
        elif st == VerificationStatus.UNKNOWN:
            pst["unknown"] += 1
        elif ca.failing_precondition is not None:
            pst["pre_failed"] += 1
        else:
            pst["ignored"] += 1
        return ca

    core.attempt_call = attempt

    # --- counterexample capture --------------------------------------------------
    ces = []
    _fmt = Conditions.format_counterexample

    def fmt(self, args, return_val, repr_overrides):
        try:
            ces.append(repr(dict(args.arguments)))
        except Exception:  # noqa
            pass
        return _fmt(self, args, return_val, repr_overrides)

    Conditions.format_counterexample = fmt

    mod = importlib.import_module(a.module)
    fn = getattr(mod, a.func)
    res["encoded"] = _hash_encoded(mod)
    opts = AnalysisOptionSet(
        per_condition_timeout=a.cond_timeout,
        per_path_timeout=a.path_timeout,
        report_all=True,
        max_uninteresting_iterations=sys.maxsize,
        max_iterations=a.max_iter or sys.maxsize,
    )
    msgs = []
    try:
        checkables = core.analyze_function(fn, opts)
        if not checkables:
            res["status"] = "error"
            res["error"] = "no contract found on " + a.func
        else:
            msgs = core.run_checkables(checkables)
    except BaseException as e:  # noqa
        res["status"] = "error"
        res["error"] = type(e).__name__ + ": " + str(e) + "\n" + traceback.format_exc()[-2000:]

    out_msgs = []
    status = res.get("status")
    for m in msgs:
        out_msgs.append({"state": m.state.name, "message": m.message[:2000], "line": m.line,
                         "tb": (m.traceback or "")[-1500:]})
    if status is None:
        states = {m.state for m in msgs}
        if states & {MessageType.POST_FAIL, MessageType.EXEC_ERR, MessageType.POST_ERR,
                     MessageType.PRE_INVALID if hasattr(MessageType, "PRE_INVALID") else MessageType.POST_ERR}:
            status = "counterexample"
        elif MessageType.SYNTAX_ERR in states or MessageType.IMPORT_ERR in states:
            status = "error"
        elif MessageType.PRE_UNSAT in states:
            status = "pre_unsat"
        elif MessageType.CANNOT_CONFIRM in states:
            status = "not_confirmed"
        elif states == {MessageType.CONFIRMED}:
            status = "confirmed"
        else:
            status = "not_confirmed"
    # an "exhausted" verdict with unknown/ignored paths is not a verdict over all paths
    res["status"] = status
    res["messages"] = out_msgs
    res["paths"] = pst
    res["z3"] = {"queries": zst["queries"], "time_s": round(zst["time"], 3), "unknown": zst["unknown"]}
    res["reach"] = part.REACH[0]
    res["ce_args"] = ces[-1] if ces else None
    res["notes"] = part.NOTES[:20]
    res["samples"] = part.SAMPLES[:3]
    res["wall_s"] = round(time.time() - t0, 3)
    print("VTRESULT " + json.dumps(res, default=repr))
    sys.stdout.flush()
    os._exit(0)


if __name__ == "__main__":
    main()
