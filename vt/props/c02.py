"""C02 — committed IH5 containers are never modified again (DESIGN 4/C02)."""
import itertools

from vt.props import c01 as C1
from vt.runner import Part

H = "vt.harness.rec"

META = {
    "technique": "CrossHair (z3) exploration of (a) API histories after a commit on the real IH5Record/IH5MFRecord over an in-memory file system with a byte-level frame oracle for every committed container and manifest sidecar, and (b) the one-write-step obligation of the overlay harness (write routing into the newest container only)",
    "explanation": "bounded symbolic exploration (action choices realised by solver-driven branching); exhaustive within the stated bounds",
    "bounds": {
        "quick": {"frames": "4 on-disk situations x every sequence of 3 actions out of 21 (reopen r/r+/a/x/w-/bogus, writable open of a strict prefix of the chain, merge onto an existing record name, double commit, create_patch, write, delete, attr, commit, discard, close, close(commit=False), merge, open explicit list reversed, read, copy) x {IH5Record, IH5MFRecord}",
                  "W": "one write step from every 2-container stack over universe {a, a/x, attr a@k}: no older container changes"},
        "thorough": {"frames": "sequences of 4 actions"},
    },
    "outside": ["mode 'w' (explicitly truncating)", "byte identity of the real HDF5 payload encoding (abstract payload: changes iff an HDF5-level write happened)",
                "OS-level effects (mtime, permissions)", "concurrent processes"],
    "stubs": ["numpy.cumproduct import shim", "fakeh5 substrate + in-memory FS (vt.substrate)", "uuid1 counter", "pydantic copy run natively"],
    "assumptions": ["substrate fidelity (conformance-tested)", "SHA-256 idealised as injective on write histories"],
}

SERIAL_TRIAGE = True  # confirm() uses in-process substrate state (history search)


def prechecks(tier):
    return [("vt.substrate.conformance", "precheck", {"n": 60})]


def plan(tier, seed):
    parts = []
    k = 3 if tier == "quick" else 4
    ob = "after every step every committed container and manifest sidecar is byte-identical; every file set that existed after a commit still opens and shows that state"
    for c in ("ih5", "mf"):
        for first in range(21):
            parts.append(Part(H, "frames", {"cls": c, "k": (k if c == "ih5" else 3), "first": first}, 900 if tier == "quick" else 6000, 120, ob, weight=2))
    keep = {"setitem", "delitem", "attr_set", "attr_del", "create_group", "create_dataset", "copy", "move", "copy_into_patch", "ds_write", "require_group"}
    for p in C1.w_parts("quick"):
        if p.sel.get("op") in keep and p.sel.get("n") == 2 and p.sel.get("p") in ("a", "a/x", "b/c"):
            p.obligation = "write routing: the operation changes only the newest (writable) container"
            parts.append(p)
    return parts


def confirm(part, kwargs, native):
    if part.module.endswith("c01"):
        return C1.confirm(part, kwargs, native)
    from vt import recreplay
    return recreplay.confirm(part, kwargs, native)
