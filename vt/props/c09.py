"""C09 — same behaviour on plain HDF5 and on IH5 records (driver level; DESIGN 4/C09).

Decided by the (W) obligation of the overlay harness with the plain substrate file as third
party: every raw protocol operation succeeds/fails alike and leaves the same user-visible tree,
for any placement of patch boundaries (induction via Inv). The container layer on top
(metadata objects, queries) is outside this check (see C06 in DESIGN.md)."""
from vt.props import c01 as C1

META = dict(C1.META)
META["outside"] = list(C1.META["outside"]) + [
    "container-level lock-step beyond sequences of 2 actions (thorough: 3 on the plain driver) of the C06 action alphabet; IH5MFRecord at container level",
    "IH5-specific API restrictions: dataset[...] = v on data of an older container is refused (copy_into_patch is the documented way); hard links are refused",
    "error messages and exception classes (only success/failure is compared)"]
prechecks = C1.prechecks

SERIAL_TRIAGE = True  # confirm() uses in-process substrate state (history search)


def confirm(part, kwargs, native):
    if part.module.endswith("cont"):
        from vt.props import c06
        return c06.confirm(part, kwargs, native)
    return C1.confirm(part, kwargs, native)


def plan(tier, seed):
    parts = [p for p in C1.w_parts(tier) if p.sel.get("op") not in ("set_node", "copy_into_patch", "set_delvalue")]
    # container level: the same action sequences through both drivers against one reference model
    from vt.runner import Part
    import vt.contactions as HK  # noqa
    k = 2 if tier == "quick" else 3
    for drv in ("h5", "ih5"):
        for first in range(len(HK.ACTIONS)):
            parts.append(Part("vt.harness.cont", "seq", {"drv": drv, "k": (k if drv == "h5" else 2), "first": first, "init": first % 2, "c09": 1}, 900 if tier == "quick" else 8000, 300,
                              "container level: same steps succeed/fail and leave the same data, metadata objects and query results on both drivers (common reference model), incl. patch boundaries and reopen points"))
    import vt.contactions as _CA
    for sel in _CA.mirror_sels():
        parts.append(Part("vt.harness.cont", "seq", dict(sel, **{"c09": 1}), 900 if tier == "quick" else 3000, 300, "container level, mirrored names (g/g/e2 exists, g/e2 free): operations through sub-group handles resolve relative targets against the handle on both drivers", weight=2))
    return parts + protocol_parts(tier)


def protocol_parts(tier):
    from vt.runner import Part
    return [Part("vt.harness.c09", "protocol_covered", {}, 60, 30,
                 "every member of H5FileLike/H5GroupLike/H5DatasetLike/H5NodeLike is exercised by some harness operation or listed as uncovered")]
