"""C09 — same behaviour on plain HDF5 and on IH5 records (driver level; DESIGN 4/C09).

Decided by the (W) obligation of the overlay harness with the plain substrate file as third
party: every raw protocol operation succeeds/fails alike and leaves the same user-visible tree,
for any placement of patch boundaries (induction via Inv). The container layer on top
(metadata objects, queries) is outside this check (see C06 in DESIGN.md)."""
from vt.props import c01 as C1

META = dict(C1.META)
META["outside"] = list(C1.META["outside"]) + [
    "container-level lock-step (metadata objects, query results): the TOC stack cannot be driven soundly by CrossHair (C06)",
    "IH5-specific API restrictions: dataset[...] = v on data of an older container is refused (copy_into_patch is the documented way); hard links are refused",
    "error messages and exception classes (only success/failure is compared)"]
prechecks = C1.prechecks
confirm = C1.confirm


def plan(tier, seed):
    parts = [p for p in C1.w_parts(tier) if p.sel.get("op") not in ("set_node", "copy_into_patch", "set_delvalue")]
    return parts + protocol_parts(tier)


def protocol_parts(tier):
    from vt.runner import Part
    return [Part("vt.harness.c09", "protocol_covered", {}, 60, 30,
                 "every member of H5FileLike/H5GroupLike/H5DatasetLike/H5NodeLike is exercised by some harness operation or listed as uncovered")]
