"""C08 — reserved metador_* namespace invisible and untouchable (DESIGN 4/C08; clause (d) is outside, see C06)."""
import itertools
import json

from vt.runner import Part, replay_native

H = "vt.harness.c08"

META = {
    "technique": "CrossHair (z3) symbolic execution of the real MetadorGroup wrapper methods, listing filters and path algebra (container/wrappers.py, container/utils.py) around a recording raw group, with structured symbolic path/name strings",
    "explanation": "bounded symbolic execution of the real functions; exhaustive within the stated bounds",
    "bounds": {
        "quick": {"guard": "every path-taking method of the group protocol (enumerated at run time: 11 methods, both positions for copy/move) x reserved path [/][pre/]metador_<rest>[/x] with |pre|,|rest| <= 2 (any characters) x all 8 flag combinations",
                  "listing": "2 children with names 'metador_'+f or near-miss family + f (|f| <= 1) + nested group with reserved entries: keys/len/iter/items/values/visit/visititems/in",
                  "algebra": "every canonical absolute user path of length <= 5", "internal": "6 prefixes x 7 families x free part <= 2 x suffix <= 3",
                  "unsupported": "every public attribute of h5py.Group outside the protocol"},
        "thorough": {"(same as quick)": ""},
    },
    "outside": ["clause (d) beyond sequences of 2 container actions (3 via C06)", "free parts of names longer than stated"],
    "stubs": ["numpy.cumproduct import shim", "recording raw group/dataset objects (association lists) instead of h5py nodes", "container object None (not needed by guards/filters)"],
    "assumptions": ["CrossHair/z3 string theory models str.startswith/find/split faithfully"],
}


def plan(tier, seed):
    parts = [Part(H, "methods_known", {}, 30, 30, "protocol enumeration == covered method list")]
    import vt.harness.c08 as HC  # noqa  (method list discovered from the repo at run time)
    for m in HC.METHODS:
        for pos in ((0, 1, 2) if m == "copy" else (0, 1) if m in HC.TWO_PATH else (0,)):
            parts.append(Part(H, "guard", {"m": m, "pos": pos}, 300, 60,
                              "reserved path rejected (ValueError/UnsupportedOperationError) and nothing mutating reaches the raw object", weight=2))
    for fam in ("", "metador", "xmetador_", "Metador_"):
        for r1, r2 in itertools.product((0, 1), repeat=2):
            parts.append(Part(H, "listing", {"fam": fam, "r1": r1, "r2": r2}, 400, 60, "listings expose exactly the non-reserved nodes at every depth", weight=2))
    parts.append(Part(H, "algebra", {}, 300, 60, "meta-dir path mapping is invertible, internal, injective"))
    for pre, fam in itertools.product(range(6), range(7)):
        parts.append(Part(H, "internal", {"pre": pre, "fam": fam}, 300, 60, "is_internal_path <=> some segment starts with metador_"))
    parts.append(Part(H, "unsupported", {}, 120, 30, "h5py.Group attributes outside the protocol are refused"))
    # clause (d): the bookkeeping never disturbs user data (container action sequences, C06 harness)
    import vt.contactions as HK  # noqa
    for first in range(len(HK.ACTIONS)):
        parts.append(Part("vt.harness.cont", "seq", {"drv": "h5", "k": 2, "first": first}, 900, 300,
                          "(d) user-visible tree == the same user operations on a plain tree; listings never show reserved nodes"))
    return parts


def confirm(part, kwargs, native):
    if part.module.endswith("cont"):
        from vt.props import c06
        return c06.confirm(part, kwargs, native)
    if part.func != "guard":
        return {"confirmed": True, "key": f"{part.func}:{json.dumps(part.sel, sort_keys=True)}",
                "what": f"{part.func} sel={part.sel} {json.dumps(kwargs)} (real wrapper classes; recording raw object)"}
    p2 = Part(H + "_real", "guard", part.sel)
    r = replay_native(p2, repr(kwargs))
    rp = r.get("replay") or {}
    if rp.get("ok", False):
        return {"confirmed": False, "what": "does not reproduce on a real MetadorContainer over h5py", "stage2": rp}
    return {"confirmed": True, "key": f"guard:{part.sel.get('m')}", "stage2": rp,
            "what": f"reserved path accepted by {part.sel.get('m')} (pos {part.sel.get('pos')}): {json.dumps(kwargs)}: {rp.get('exc')}"}
