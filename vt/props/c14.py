"""C14 — partial-model merge monoid (DESIGN 4/C14)."""
import itertools
import json

from vt.runner import Part, replay_native

H = "vt.harness.c14"

META = {
    "technique": "CrossHair symbolic execution (z3) of the real PartialModel._update_field/merge_with/merge/cast/to_partial/from_partial against a reference merge written from the module docstring",
    "explanation": "bounded symbolic execution of the real functions; exhaustive within the stated bounds",
    "bounds": {
        "quick": {"ints": "unbounded (symbolic)", "strings": "length <= 2", "lists": "length <= 2 (assoc: <= 1)", "sets": "size <= 2",
                  "nested": "absent / complete instance / partial instance (per operand, by partition); inheritance chain Inner < InnerSub",
                  "operands": "2 (merge2/atoms2/sets2/subclass_chain), 3 (assoc), allow_overwrite symbolic"},
        "thorough": {"assoc": "all 27 nested-kind combinations with all three field groups free at once"},
    },
    "outside": ["sibling (incomparable) nested model classes (excluded by the property)", "installed schemas' own field types beyond these shapes",
                "harvester-produced partials", "Union-typed fields", "sets of nested models"],
    "stubs": ["numpy.cumproduct import shim", "pure-Python pydantic 1.10 sources (same version as the compiled build) so that values stay symbolic through validation",
              "repr() inside metador_core.schema.partial replaced by a constant (error-message formatting forks per digit)",
              "pydantic.BaseModel.copy executed natively (shallow copy, never inspects values)",
              "instances built with .construct() (skips validation)"],
    "assumptions": ["CrossHair/z3 model of CPython list/set/dict/str/int operations"],
}

KINDS = {"none": 0, "complete": 1, "partial": 2, "complete_sub": 3, "partial_sub": 4}


def plan(tier, seed):
    ct = 150 if tier == "quick" else 900
    P = lambda f, sel, ob, w=1.0: Part(H, f, sel, ct, 30, ob, pure_pydantic=True, weight=w)  # noqa
    parts = [
        P("shapes", {}, "parse_obj yields nested partial instances, to_partial nested complete instances; constants ignored; mixed operands merge"),
        P("cast_types", {}, "cast/merge across an inheritance chain yields the class asked for; from_partial gives the child model"),
        P("cast_merged", {}, "a merged partial cast to the partial class of a subclass keeps every value; merging across partial classes of an inheritance chain is associative"),
        P("falsy", {}, "no falsy provided value is dropped (either side, with/without overwrite)"),
        P("atoms2", {}, "atomic fields: absent/absent, one side, conflict raises without overwrite, later wins with it; operands unchanged"),
        P("sets2", {}, "sets are united; operands unchanged"),
        P("roundtrip", {}, "from_partial(to_partial(x)) == x"),
    ]
    for kx in (0, 1, 2):
        parts.append(P("identity", {"kx": kx}, "empty partial is left and right identity; merge() of nothing is empty"))
    for kx, ky in itertools.product((0, 1, 2), repeat=2):
        parts.append(P("merge2", {"kx": kx, "ky": ky}, "result == reference merge (lists concatenated, nested merged recursively, conflicts raise / later wins); operands unchanged", 2))
    for kx, ky in itertools.product((1, 2, 3, 4), repeat=2):
        if kx in (3, 4) or ky in (3, 4):
            parts.append(P("subclass_chain", {"kx": kx, "ky": ky}, "nested values from an inheritance chain merge recursively"))
    kinds = (0, 1, 2)
    combos = list(itertools.product(kinds, repeat=3))
    if tier == "quick":
        combos = [c for c in combos if c in {(0, 0, 0), (1, 1, 1), (2, 2, 2), (1, 2, 0), (2, 1, 2), (0, 2, 1), (2, 0, 1), (1, 0, 2)}]
    ob = "(a.b).c == a.(b.c) == merge(a,b,c), raising alike; operands unchanged"
    QUICK8 = {(0, 0, 0), (1, 1, 1), (2, 2, 2), (1, 2, 0), (2, 1, 2), (0, 2, 1), (2, 0, 1), (1, 0, 2)}
    for ka, kb, kc in combos:
        # atomic+nested and list dimensions separately (fields merge independently); thorough: all 27 kind
        # combinations, and the three dimensions jointly for the 8 combinations of the quick tier
        parts.append(P("assoc", {"ka": ka, "kb": kb, "kc": kc, "fields": "in"}, ob, 3))
        if tier != "quick" and (ka, kb, kc) in QUICK8:
            parts.append(P("assoc", {"ka": ka, "kb": kb, "kc": kc, "fields": "iln"}, ob, 3))
    parts.append(P("assoc", {"ka": 0, "kb": 0, "kc": 0, "fields": "l"}, ob + " (lists)", 2))
    parts.append(P("assoc", {"ka": 0, "kb": 0, "kc": 0, "fields": "il"}, ob + " (atomic+lists)", 2))
    parts.append(Part("vt.harness.c14_inst", "nested", {}, 120, 60,
                      "installed schemas: nested object of a complete instance (built from a versioned or a version-less plugin "
                      "handle) merges recursively with a parsed partial; identity; round trip", pure_pydantic=False))
    parts.append(Part("vt.harness.c14_inst", "installed", {}, 300, 60,
                      "every installed schema: partial class can be created, empty partial is an identity, rich valid instances "
                      "survive complete -> partial -> complete (also through JSON)", pure_pydantic=False))
    return parts


def confirm(part, kwargs, native):
    # the harness already runs the real classes; stage 2 = stage 1 on the compiled pydantic build
    p2 = Part(part.module, part.func, part.sel, pure_pydantic=False)
    r = replay_native(p2, repr(kwargs))
    rp = r.get("replay") or {}
    if rp.get("ok", False):
        return {"harness_error": f"counterexample {kwargs} reproduces only on the pure-Python pydantic build"}
    return {"confirmed": True, "key": f"{part.func}:{json.dumps(part.sel, sort_keys=True)}", "stage2": rp,
            "what": f"{part.func}{json.dumps(kwargs, default=repr)} sel={part.sel}: {rp.get('exc') or 'oracle false'}",
            "script": _script(part, kwargs)}


def _script(part, kwargs):
    return f'''# replay of a solver counterexample for C14 on the real metador_core partial models
import sys, json
sys.path.insert(0, "/verif")
import vt.part as P
P.NATIVE = True
P.SEL.update({json.dumps(part.sel)})
import vt.npshim
import {part.module} as H
ok = H.{part.func}(**{kwargs!r})
print("property holds on this input:", ok)
sys.exit(0 if ok else 1)
'''
