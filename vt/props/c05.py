"""C05 — merge materialises the overlay view and continues the patch chain (DESIGN 4/C05)."""
import itertools
import json

from vt.runner import Part

H = "vt.harness.c05"

META = {
    "technique": "CrossHair (z3) exploration of symbolic container stacks written as records on the in-memory file system (real user blocks), merged by the real merge_files/h5_copy_from_to: merged view == source view == fold(stack), merged user block continues the chain, source unchanged on disk and through the open object, follow-up patches apply to the merged container with the same result",
    "explanation": "bounded symbolic exploration (kinds realised by solver-driven branching); exhaustive within the stated bounds",
    "bounds": {
        "quick": {"stack": "2 containers over universes {a, a/x, attr a@k}, {a, a/x, attr a/x@k}, {a, root attr k} and 3 containers over {a, a/x}; every Inv-valid stack; second-generation merge (merged container + follow-up patch merged again)", "follow-up patch": "one operation out of 8",
                  "classes": "IH5Record and IH5MFRecord (with manifest)", "refusal": "uncommitted base / uncommitted patch"},
        "thorough": {"stack": "3 containers over {a, a/x, attr a@k}, {a, b}"},
    },
    "outside": ["chunking/compression/dtype preservation of real datasets (values opaque)", "merge with a stub in the set (C10)"],
    "stubs": ["numpy.cumproduct import shim", "fakeh5 substrate + in-memory FS", "uuid1 counter", "pydantic copy run natively"],
    "assumptions": ["substrate fidelity (conformance-tested)", "Inv over-approximates reachable stacks"],
}

SERIAL_TRIAGE = True  # confirm() uses in-process substrate state (history search)


def prechecks(tier):
    return [("vt.substrate.conformance", "precheck", {"n": 60})]


def plan(tier, seed):
    parts = []
    ob = "merged view == overlay view == fold; same record/patch identity; source unchanged (disk + ih5_meta + view); follow-up patch applies to merged container alike"
    cfgs = [("ax_k", 2, "ih5"), ("ax_k", 2, "mf"), ("ax", 3, "ih5"), ("ax_xk", 2, "ih5"), ("rootk", 2, "ih5")] if tier == "quick" else \
           [("ax_k", 2, "ih5"), ("ax_k", 2, "mf"), ("ax", 3, "ih5"), ("ax", 3, "mf"), ("ax_xk", 2, "ih5"), ("ax_xk", 2, "mf"), ("rootk", 2, "ih5"), ("rootk", 2, "mf")]
    for u, n, c in cfgs:
        fus = range(8)
        if tier == "quick" and (n, c, u) != (2, "ih5", "ax_k"):
            fus = (0, 2, 4) if c == "mf" else (1, 3)  # (the merged view does not depend on the follow-up)
        for fu in fus:
            if n >= 3 and u == "ax_k":
                for k0 in (0, 2, 3):
                    parts.append(Part(H, "merge", {"n": n, "u": u, "cls": c, "fu": fu, "fix": {"0_0": k0}}, 900 if tier == "quick" else 4000, 120, ob, weight=3))
            else:
                parts.append(Part(H, "merge", {"n": n, "u": u, "cls": c, "fu": fu}, 900 if tier == "quick" else 4000, 120, ob, weight=n))
    for c in ("ih5", "mf"):
        parts.append(Part(H, "refused", {"cls": c}, 120, 60, "merge refused with uncommitted changes; nothing left behind"))
    for c in ("ih5", "mf"):
        parts.append(Part(H, "after_refused_commit", {"cls": c}, 120, 60, "a refused commit does not make a later merge fail"))
    for c in ("ih5", "mf"):
        parts.append(Part(H, "merge_small", {"cls": c}, 120, 60, "API-built records with 1..3 containers: merged record opens under the same class with the source's manifest"))
    parts.append(Part(H, "refused_stub", {}, 120, 60, "merge refused when the set contains a stub (fresh, reopened, or with a patch on top)"))
    return parts


def confirm(part, kwargs, native):
    if part.func == "after_refused_commit":
        script = AFTER_REFUSED.replace("__CLS__", repr(part.sel.get("cls", "mf"))).replace("__KW__", repr(kwargs))
        from vt import history as HI
        rc, out = HI.run_script(script)
        if rc == 0:
            return {"confirmed": False, "what": "does not reproduce on real h5py files"}
        if rc != 1:
            return {"harness_error": "replay script crashed: " + out[-600:]}
        return {"confirmed": True, "key": "merge-after-refused-commit", "script": script,
                "what": "merge fails after a refused commit_patch(): " + " | ".join(l for l in out.splitlines() if l.startswith("MISMATCH"))[:400]}
    if part.func != "merge":
        return {"confirmed": True, "key": part.label, "what": f"{part.func} {kwargs}"}
    import vt.part as P
    P.NATIVE = True
    P.SEL.clear()
    P.SEL.update(part.sel)
    import vt.harness.c01 as HC
    import vt.harness.c05 as H5
    from vt import history as HI
    from vt.substrate import fakeh5

    sel = part.sel
    n, uni = sel.get("n", 2), sel.get("u", "ax_k")
    names = ["k%d%d" % (i, j) for i in range(4) for j in range(4)]
    kinds = HC.realise(uni, HC._apply_fix(HC._kinds([kwargs[x] for x in names], n)), n)
    files = H5.fs_record(uni, kinds, n)
    shapes = [HI.raw_shape(fakeh5.FS[f].root) for f in files]
    paths, attrs = HC.UNIVERSES[uni]
    hist = HI.find_history(shapes, paths, sorted({k for _, k in attrs}) or ["k"], maxlen=4, mkrecord=HC.mkrecord)
    if hist is None:
        return {"confirmed": False, "what": "no public-API history (<=4 ops per container) produces this raw stack",
                "stack": [{str(k): v for k, v in s.items()} for s in shapes]}
    fo = H5.FOLLOW[kwargs["fu"]]
    script = HI.make_merge_script(hist, (fo[0], fo[1], None), sel.get("cls", "ih5"))
    rc, out = HI.run_script(script)
    if rc == 0:
        return {"confirmed": False, "history": hist, "what": "history found, but the real libraries satisfy all merge clauses: notes=" + json.dumps(native.get("notes", ""))[:300]}
    if rc != 1:
        return {"harness_error": "replay script crashed: " + out[-800:]}
    mism = [l for l in out.splitlines() if l.startswith("MISMATCH")]
    kind = mism[0].split("'")[1] if mism else "?"
    return {"confirmed": True, "key": "merge:" + kind, "script": script, "history": hist,
            "what": f"source history {hist}, merge: " + " | ".join(mism)[:500]}


AFTER_REFUSED = r'''# replay on real h5py: a refused commit_patch() followed by merge_files()
import shutil, sys, tempfile
from pathlib import Path
import numpy as np
if not hasattr(np, "cumproduct"):
    np.cumproduct = np.cumprod
from metador_core.ih5.record import IH5Record
from metador_core.ih5.manifest import IH5MFRecord
C = {"ih5": IH5Record, "mf": IH5MFRecord}[__CLS__]
kw = __KW__
tmp = tempfile.mkdtemp(prefix="vt_arc_")
bad = []
try:
    r = C(tmp + "/rec", "w"); r["a"] = 1; r.commit_patch(); r.create_patch(); r["b"] = 2; r.commit_patch()
    if kw["mode_r"]:
        r.close(); r = C(tmp + "/rec", "r")
    for _ in range(2 if kw["twice"] else 1):
        try:
            r.commit_patch(); bad.append(("commit with nothing to commit was not refused",))
        except ValueError:
            pass
    try:
        r.merge_files(Path(tmp) / "mrg")
    except Exception as e:
        bad.append(("merge fails after a refused commit", type(e).__name__, str(e)[:150]))
finally:
    shutil.rmtree(tmp, ignore_errors=True)
for b in bad:
    print("MISMATCH:", b)
sys.exit(1 if bad else 0)
'''
