"""C01 — IH5 overlay transparency (DESIGN 3.3, 4/C01). Also serves C02 (frame condition) and C09."""
import itertools
import json

from vt.runner import Part

H = "vt.harness.c01"

META = {
    "technique": "CrossHair (z3) exploration of symbolic IH5 container stacks; the real ih5/overlay.py runs on an in-memory HDF5 substrate; obligations: read == fold(stack), one write step == same step on the materialised single container == plain file, Inv preserved, older containers untouched; counterexamples replayed through the public API on real h5py",
    "explanation": "bounded symbolic exploration (kinds realised by solver-driven branching); exhaustive within the stated bounds; inductive over histories via the representation invariant Inv",
    "bounds": {},
    "outside": ["more containers per query than stated (longer histories are covered only through Inv)", "universes wider than 2 siblings / deeper than 3",
                "array datasets (values are opaque scalars)", "h5py itself (substrate validated by conformance runs only)",
                "non-canonical path spellings (a/, //a, .)", "moving a node into its own subtree", "require_dataset shape/dtype compatibility checks"],
    "stubs": ["numpy.cumproduct import shim", "fakeh5 in-memory HDF5 substrate as sys.modules['h5py'] (validated against real h5py by vt.substrate.conformance)",
              "IH5Record assembled with __new__ around raw containers (what _open does, without user blocks)"],
    "assumptions": ["the in-memory substrate behaves like h5py on the operations used (conformance-tested, not proven)",
                    "representation invariant Inv (DESIGN 3.3) over-approximates the reachable raw stacks"],
}

W_OPS_P = ["create_group", "setitem", "delitem", "attr_set", "attr_del", "require_group", "set_delvalue",
           "create_dataset", "require_dataset", "ds_write", "copy_into_patch"]
W_PATHS = ["a", "a/x", "a/x/q", "b", "b/c", "/a"]
W_OPS_PQ = ["copy", "move", "set_node", "copy_shallow", "copy_noattrs", "copy_node"]
# operations through a sub-group handle r["a"] with relative / absolute arguments
W_BASE = [("create_group", "x", None), ("create_group", "x/q", None), ("setitem", "y", None), ("setitem", "x", None),
          ("delitem", "x", None), ("attr_set", "x", None), ("require_group", "x", None), ("create_dataset", "/b", None),
          ("delitem", "/a", None), ("copy", "x", "y"), ("copy", "x", "/b"), ("move", "x", "y"), ("move", "x", "/b/c"),
          ("copy_shallow", "/a", "/b")]
W_PQ = [("a", "b"), ("a/x", "b"), ("a", "a/x/c"), ("a/x", "a/y"), ("a", "b/c"), ("b", "a")]

SERIAL_TRIAGE = True  # confirm() uses in-process substrate state (history search)


def prechecks(tier):
    return [("vt.substrate.conformance", "precheck", {"n": 120 if tier == "quick" else 600})]


def r_parts(tier):
    parts = []
    ob = "(R) view through the overlay == fold(stack); contains/getitem/get/keys/len/iter/parent agree"
    cfg = [("a_k", 3), ("ax", 3), ("ax_k", 3), ("rootk", 3), ("ab", 3)] if tier == "quick" else \
          [("a_k", 4), ("ax", 4), ("ax_k", 3), ("rootk", 3), ("ax_xk", 3), ("axy", 3), ("ab", 3)]
    ct = 600 if tier == "quick" else 3000
    for u, n in cfg:
        has_a_attr = u in ("a_k", "ax_k")
        big = u in ("axy", "axp", "ax_b", "ax_xk") or (u, n) in (("ax_k", 4), ("ab", 4))
        if (u in ("ax_k", "ax_xk", "axy", "axp", "ax_b") and n >= 3) or n >= 4:
            for k0, k1 in itertools.product((0, 2, 3), (0, 1, 2, 3, 4)):
                if k0 == 2 and k1 == 3 and not has_a_attr:
                    continue  # virtual node over a dataset needs an attribute slot: nothing valid here
                if big and n >= 3:
                    for k2 in (0, 1, 2, 3, 4):
                        if k2 == 3 and not has_a_attr and (k1 in (1, 2) or (k1 == 0 and k0 == 2)):
                            continue  # a virtual node needs a group below it (or an attribute slot): nothing valid here
                        parts.append(Part(H, "R", {"n": n, "u": u, "fix": {"0_0": k0, "1_0": k1, "2_0": k2}}, ct, 60, ob, weight=2))
                else:
                    parts.append(Part(H, "R", {"n": n, "u": u, "fix": {"0_0": k0, "1_0": k1}}, ct, 60, ob, weight=2))
        else:
            parts.append(Part(H, "R", {"n": n, "u": u}, ct, 60, ob))
    return parts


def w_parts(tier):
    parts = []
    ob = "(W) op on stack == op on materialised single container == plain file; fold-consistent; Inv preserved; older containers untouched"
    cfgs = [("ax_k", 2)] if tier == "quick" else [("ax_k", 2), ("ax", 3)]
    for u, n in cfgs:
        for op in W_OPS_P:
            for p in W_PATHS:
                parts.append(Part(H, "W", {"n": n, "u": u, "op": op, "p": p}, 600 if tier == "quick" else 3000, 60, ob, weight=2))
        for op in W_OPS_PQ:
            for p, q in W_PQ:
                if op == "move" and q.startswith(p + "/"):
                    continue  # moving a node into its own subtree: excluded by the property
                parts.append(Part(H, "W", {"n": n, "u": u, "op": op, "p": p, "q": q}, 600 if tier == "quick" else 3000, 60, ob, weight=2))
    # copy/move of subtrees whose nested dataset carries attributes; operations through a sub-group handle
    for op in ("copy", "move", "copy_shallow", "copy_noattrs", "copy_node"):
        for p, q in (("a", "b"), ("a/x", "b"), ("a", "b/c")):
            parts.append(Part(H, "W", {"n": 2, "u": "ax_xk", "op": op, "p": p, "q": q}, 600, 60, ob, weight=2))
    for op in ("copy", "copy_shallow", "move", "copy_node"):  # depth-3 subtree: shallow vs deep copies differ
        for p, q in (("a", "b"), ("a/x", "b")):
            parts.append(Part(H, "W", {"n": 2, "u": "axp", "op": op, "p": p, "q": q}, 600, 60, ob, weight=2))
    for p in ("a", "a/x", "b", "b/c"):  # a failing write (value None) leaves the tree unchanged
        parts.append(Part(H, "W", {"n": 2, "u": "ax_k", "op": "setitem_none", "p": p}, 600, 60, ob, weight=2))
    for op in ("move", "copy"):  # source == destination (h5py: move is a no-op, copy is refused)
        for p in ("a", "a/x"):
            parts.append(Part(H, "W", {"n": 2, "u": "ax_k", "op": op, "p": p, "q": p}, 600, 60, ob, weight=2))
    for op, p, q in W_BASE:
        parts.append(Part(H, "W", {"n": 2, "u": "ax_k", "op": op, "p": p, "q": q, "base": "a"}, 600, 60, ob + " (through the handle r['a'])", weight=2))
    if tier == "quick":
        for op in ("create_group", "setitem", "delitem", "attr_set", "require_group"):
            # ("a/x/q": two missing segments below a node deleted in an OLDER patch - implicit ancestors must be
            #  explicit overwrite groups; seeding round 5)
            for p in ("a", "a/x", "b/c", "a/x/q"):
                parts.append(Part(H, "W", {"n": 3, "u": "ax", "op": op, "p": p}, 600, 60, ob, weight=3))
    return parts


def plan(tier, seed):
    extra = [Part(H, "guard_key", {}, 300, 60, "every key of the documented alphabet (non-empty printable ASCII without '@'; attributes: also no '/', not the SUBST key) is accepted")]
    # the same overlay code under the IH5MFRecord class
    ob = "(W) through IH5MFRecord"
    for op, p, q in (("setitem", "a/x", None), ("delitem", "a", None), ("create_group", "b/c", None), ("copy", "a", "b"), ("attr_set", "a", None)):
        extra.append(Part(H, "W", {"n": 2, "u": "ax_k", "op": op, "p": p, "q": q, "rcls": "mf"}, 600, 60, ob, weight=2))
    return r_parts(tier) + w_parts(tier) + extra


def confirm(part, kwargs, native):
    return confirm_stack(part, kwargs, native)


def confirm_stack(part, kwargs, native):
    import vt.part as P
    P.NATIVE = True
    P.SEL.clear()
    P.SEL.update(part.sel)
    import vt.harness.c01 as HC
    from vt import history as HI

    sel = part.sel
    n, uni = sel.get("n", 3), sel.get("u", "ax")
    names = ["k%d%d" % (i, j) for i in range(4) for j in range(4)]
    kinds = HC._apply_fix(HC._kinds([kwargs[x] for x in names], n))
    kinds = HC.realise(uni, kinds, n)
    files = HC.build(uni, kinds, n, writable=True)
    shapes = [HI.raw_shape(f._root) for f in files]
    paths, attrs = HC.UNIVERSES[uni]
    keys = sorted({k for _, k in attrs}) or ["k"]
    hist = HI.find_history(shapes, paths, keys, maxlen=4, mkrecord=HC.mkrecord)
    if hist is None:
        return {"confirmed": False, "what": "no public-API history (<=4 ops per container) produces this raw stack",
                "stack": [{str(k): v for k, v in s.items()} for s in shapes]}
    final = None
    if part.func.startswith("W"):
        op = sel.get("op")
        final = (op, sel.get("p"), sel.get("q") if op.startswith(("copy", "move")) else None, sel.get("base"))
        if op == "set_node":
            final = None  # IH5-specific operation: no plain-file counterpart; judged on the substrate only
    script = HI.make_script(hist, final)
    rc, out = HI.run_script(script)
    if rc == 0:
        return {"confirmed": False, "history": hist, "final": final,
                "what": "history found, but on the real libraries the record agrees with the plain file (induction/Inv issue or substrate infidelity): "
                        + json.dumps(native.get("returned")) + " notes=" + json.dumps(native.get("notes", ""))[:300]}
    if rc != 1:
        return {"harness_error": "replay script crashed: " + out[-800:]}
    return {"confirmed": True, "key": HI.key_of(hist, final), "script": script, "history": hist, "final": final,
            "what": f"history {hist} then {final}: " + " | ".join(l for l in out.splitlines() if l.startswith("MISMATCH"))[:600]}
