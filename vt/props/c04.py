"""C04 — only coherent, untampered file sets open as a record (DESIGN 4/C04)."""
import itertools
import json

from vt.runner import Part, replay_native

H = "vt.harness.c04"

META = {
    "technique": "CrossHair (z3) symbolic execution of the real IH5Record._open/_check_ublock (+ IH5MFRecord overrides) on stand-in user blocks with symbolic record ids, patch indices, patch uuids, predecessor links; hash verdict per file by partition; compared with an independently written coherence predicate",
    "explanation": "bounded symbolic execution of the real functions; exhaustive within the stated bounds",
    "bounds": {
        "quick": {"chain": "1..3 files in any order; patch indices: any ints in 0..12 (symbolic), uuids/links: ints in 0..n (None allowed for links), 2 record ids; per file hash absent / verifies / fails (all 3^n combinations)",
                  "manifest": "IH5MFRecord, 1..2 containers: manifest extension present/absent, manifest file exists/not, manifest hash verifies/not, stub flags"},
        "thorough": {"chain": "1..4 files"},
    },
    "outside": ["that a flipped/added/removed payload byte changes SHA-256 (assumed; the hash oracle is a per-file verdict)",
                "truncated HDF5 that h5py itself refuses", "allow_baseless=True (internal option)",
                "the code accepts index gaps as long as the uuid link is right (needed for merged containers): 'gap-free' is read as gap-free in the prev_patch link"],
    "stubs": ["numpy.cumproduct import shim", "fakeh5 substrate", "IH5UserBlock.load returns stand-in user blocks with symbolic fields",
              "hashsum_file replaced by a per-file verdict", "IH5Manifest.parse_file stubbed"],
    "assumptions": ["SHA-256 detects every payload modification", "user-block parsing (pydantic) yields the stored field values (covered by C03/C11 harnesses on real blocks)"],
}


def plan(tier, seed):
    parts = []
    ob = "_open succeeds <=> base + gap-free chain of one record, distinct patch uuids, all but the newest committed, every stored hash verifies; otherwise ValueError"
    ns = (1, 2, 3) if tier == "quick" else (1, 2, 3, 4)
    for n in ns:
        for h in itertools.product((0, 1, 2), repeat=n):
            parts.append(Part(H, "chain", {"n": n, "h": list(h)}, 600 if tier == "quick" else 3000, 60, ob, weight=n))
    for n in (1, 2):
        parts.append(Part(H, "manifest", {"n": n}, 300, 60, "manifest of the newest container must exist and verify; stubs only as base"))
    # edited manifest of the newest committed container while an uncommitted patch sits on top (through the
    # public API on the record substrate; shared with C10: vt/mfhist.py, tamper clause)
    parts.append(Part("vt.harness.c10", "exts_history", {}, 900 if tier == "quick" else 3000, 120,
                      "an edited manifest sidecar of the newest committed container is refused in r/r+/a, also under an uncommitted patch"))
    return parts


def confirm(part, kwargs, native):
    if part.func == "exts_history":
        import vt.props.c10 as P10
        return P10.confirm(part, kwargs, native)
    """Stage 2: build real container files with real user blocks (real IH5UserBlock.save, real h5py)
    carrying the counterexample's fields and open them with the real IH5Record."""
    p2 = Part(part.module.replace("c04", "c04_real"), part.func, part.sel)
    r = replay_native(p2, repr(kwargs))
    rp = r.get("replay") or {}
    if rp.get("returned") == "None" and not rp.get("exc"):
        # scenario with stub flags / broken chain + manifest: no real-file construction; the substrate run
        # executes the real _open/_check_ublock on stand-in blocks, its native replay is the confirmation
        return {"confirmed": True, "key": f"{part.func}:substrate:{json.dumps(kwargs, sort_keys=True)}",
                "what": f"{part.func} sel={part.sel} {json.dumps(kwargs)} (confirmed on the substrate only)"}
    if rp.get("ok", False):
        return {"confirmed": False, "what": "does not reproduce with real user blocks on real files", "stage2": rp}
    if rp.get("exc") and "AssertionError" not in rp.get("exc", "") and "MISMATCH" not in rp.get("exc", ""):
        return {"harness_error": "real-file replay crashed: " + str(rp.get("exc"))[:600] + str(rp.get("tb", ""))[-600:]}
    return {"confirmed": True, "key": f"{part.func}:{json.dumps(part.sel, sort_keys=True)}:{json.dumps(kwargs, sort_keys=True)}",
            "what": f"{part.func} sel={part.sel} {json.dumps(kwargs)}: {rp.get('exc')}", "stage2": rp,
            "script": f'''# replay on real files: real h5py containers with real IH5UserBlock.save, opened by the real IH5Record
import sys
sys.path.insert(0, "/verif")
import vt.part as P
P.NATIVE = True
P.SEL.update({json.dumps(part.sel)})
import vt.harness.c04_real as H
ok = H.{part.func}(**{kwargs!r})
print("property holds on this file set:", ok)
sys.exit(0 if ok else 1)
'''}
