"""C19 — directory hashsums identify directory content (DESIGN 4/C19)."""
import itertools
import json

from vt.runner import Part, replay_native

H = "vt.harness.c19"

META = {
    "technique": "CrossHair symbolic execution (z3) of the real hashsum chunk loop (recording hash object, symbolic content and short-read schedule) and of dir_hashsums/rel_symlink over an in-memory directory with symbolic entry kinds, contents, link targets and visiting order",
    "explanation": "bounded symbolic execution of the real functions; exhaustive within the stated bounds",
    "bounds": {
        "quick": {"chunk": "content: any bytes of length <= 4 (symbolic), 3 read sizes: any ints (short reads), block size 2",
                  "chunk_bytes": "bytes argument path: length <= 3 over 3 byte values (realised by io.BytesIO)",
                  "unknown_alg": "any algorithm name of length <= 6",
                  "tree3": "entries a, d, d/x: each absent/file(3 contents)/symlink(5 targets incl. outside, dangling, via '..')/directory; outside target exists or not; every visiting order",
                  "pair2": "two directories over names a, b (kinds x contents x 3 link targets): hash trees equal <=> directories the same; outside link <=> ValueError"},
        "thorough": {"chunk": "content length <= 8"},
    },
    "outside": ["SHA-256/SHA-512 themselves (replaced by an injective recording hash)", "real Path.rglob / resolve with link chains (link -> link) and links whose text runs through themselves",
                "timestamps, permissions, special files", "file_hashsum on unreadable files"],
    "stubs": ["numpy.cumproduct import shim", "_hash_alg['rec'] = recording hash (block_size 2)", "hashsums.open / hashsums.os.readlink rebound to the in-memory directory",
              "FP(PurePosixPath) entries: is_file follows links, resolve() physical like pathlib (link chains followed; cycles outside the claim); validated against a real temp directory by fidelity()"],
    "assumptions": ["SHA-256 is injective on the inputs in question (content equality <=> digest equality)",
                    "pathlib.rglob yields every entry below the directory exactly once, in some order, without following directory symlinks"],
}


def prechecks(tier):
    return [(H, "fidelity", {})]


def plan(tier, seed):
    ct = 300 if tier == "quick" else 2000
    parts = [
        Part(H, "chunk", {"maxlen": 4 if tier == "quick" else 8}, ct, 30, "digest input == stream content for every short-read schedule; prefix alg:"),
        Part(H, "chunk_bytes", {}, ct, 30, "bytes argument is hashed completely"),
        Part(H, "unknown_alg", {}, 120, 30, "unknown algorithm raises ValueError"),
    ]
    ob = "hash tree == expected tree for every visiting order; outside symlink <=> ValueError; empty dirs kept; in-dir symlink stored as normalised target"
    for ka, kd in itertools.product(range(4), repeat=2):
        if kd == 3:
            for kx in range(4):
                parts.append(Part(H, "tree3", {"ka": ka, "kd": kd, "kx": kx}, ct, 30, ob, weight=2))
        else:
            parts.append(Part(H, "tree3", {"ka": ka, "kd": kd}, ct, 30, ob, weight=2))
    ob2 = "hash trees equal <=> same names, contents, in-dir link targets, subdirectories"
    for k1 in itertools.product(range(4), repeat=2):
        pay = []
        for k in k1:
            pay.append([(0, 0)] if k in (0, 3) else [(c, 0) for c in (0, 1)] if k == 1 else [(0, t) for t in (0, 1, 2)])
        for pa, pb in itertools.product(*pay):
            if k1[0] == 2 and pa[1] == 0:
                continue  # a -> a: self link, outside the stub's fidelity
            if list(k1) == [2, 2] and pb[1] == 0:
                continue  # b -> a -> ...: link chain, outside the stub's fidelity
            parts.append(Part(H, "pair2", {"k1": list(k1), "c1": [pa[0], pb[0]], "t1": [pa[1], pb[1]]}, ct, 30, ob2))
    parts.append(Part(H, "linkdir", {}, 300, 30,
                      "a symlink to a directory at another depth + '..' in link targets: recorded target == physically normalised "
                      "target; directories differing only in one link target get equal trees iff those are equal"))
    return parts


def _key(part, kw):
    return f"{part.func}:{json.dumps(part.sel, sort_keys=True)}"


def confirm(part, kwargs, native):
    """Stage 2: rebuild the counterexample directory on a real file system and run the real
    dir_hashsums (real pathlib/os/hashlib) on it."""
    sel = dict(part.sel, realfs=1)
    r = replay_native(Part(part.module, "realfs_" + part.func, sel), repr(kwargs))
    rp = r.get("replay") or {}
    if rp.get("ok", False):
        return {"confirmed": False, "what": "does not reproduce on a real directory", "stage2": rp}
    return {"confirmed": True, "key": _classify(part, kwargs, rp), "stage2": rp,
            "what": f"{part.func} sel={part.sel} {json.dumps(kwargs, default=repr)}: {rp.get('exc')}",
            "script": f'''# replay of a solver counterexample for C19 on a real temporary directory
import sys, json
sys.path.insert(0, "/verif")
import vt.part as P
P.NATIVE = True
P.SEL.update({json.dumps(sel)})
import vt.npshim
import {part.module} as H
ok = H.realfs_{part.func}(**{kwargs!r})
print("property holds on this input:", ok)
sys.exit(0 if ok else 1)
'''}


def _classify(part, kwargs, rp):
    exc = rp.get("exc") or ""
    if "outside-link-not-rejected" in exc:
        return "dir_hashsums:outside-symlink-to-existing-file-not-rejected"
    if "symlink-hashed-as-file" in exc:
        return "dir_hashsums:symlink-to-file-hashed-as-file"
    return _key(part, kwargs)
