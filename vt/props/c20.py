"""C20 — containers are self-describing about the schemas they use (partial; DESIGN 9)."""
from vt.props import c06 as C6
from vt.runner import Part

META = dict(C6.META)
META["technique"] = ("CrossHair (z3) exploration of bounded container action sequences (C06 harness) with the self-description oracle: for every stored object the embedded "
                     "JSON Schema equals the plugin's, the embedded parent chain and provider equal the plugin system's, the object validates (jsonschema) against the embedded schema, "
                     "and a freshly opened container reports the same")
META["outside"] = list(C6.META["outside"]) + [
    "harness-registered schema families with several versions / deeper inheritance (only the installed core.file <- core.imagefile and core.dir are used)",
    "pydantic's JSON-Schema generation and the jsonschema validator themselves (third party)"]
prechecks = C6.prechecks
confirm = C6.confirm


def plan(tier, seed):
    import vt.contactions as HC  # noqa
    k = 2 if tier == "quick" else 3
    parts = []
    for drv in ("h5", "ih5"):
        for first in range(len(HC.ACTIONS)):
            parts.append(Part("vt.harness.cont", "seq", {"drv": drv, "k": (k if drv == "h5" else 2), "first": first, "init": first % 2, "c20": 1}, 900 if tier == "quick" else 8000, 300,
                              "schema/package records exactly for schemas in use; embedded schema, parent chain, provider == plugin system; objects validate against the embedded schema; same after reopen"))
    import vt.contactions as _CA
    for sel in _CA.mirror_sels():
        parts.append(Part("vt.harness.cont", "seq", dict(sel, **{"c20": 1}), 900 if tier == "quick" else 3000, 300, "container level, mirrored names (g/g/e2 exists, g/e2 free): operations through sub-group handles resolve relative targets against the handle on both drivers", weight=2))
    return parts
