"""C15 — node restrictions cannot be escaped by navigating the container (DESIGN 4/C15)."""
import json

from vt.runner import Part

H = "vt.harness.c15"

META = {
    "technique": "CrossHair (z3) symbolic execution of the real MetadorNode/MetadorGroup/MetadorDataset/WrappedAttributeManager/MetadorMeta guards with the three ACL flags as symbolic booleans: one-step induction over every navigation primitive and every mutating/reading member, recording raw objects",
    "explanation": "bounded symbolic execution of the real functions; exhaustive over all flag combinations per primitive; inductive over navigation chains of any length",
    "bounds": {"quick": {"nav": "21 navigation primitives (incl. the upward members parent/file applied to every derived node, datasets too) x all flag combinations (restrict: all 64 combinations of old/new flags)",
                          "mutate": "22 mutating members (group, dataset, attribute manager incl. MutableMapping mixins, metadata) on read_only nodes",
                          "skel": "14 reading members on skel_only nodes", "restrict_monotone": "all 512 flag triples"}},
    "outside": ["bypassing through __wrapped__/private attributes (documented as soft restrictions)", "widgets' and packers' own use of restricted nodes",
                "real h5py objects (recording mocks stand in for raw nodes)"],
    "stubs": ["numpy.cumproduct import shim", "recording raw group/dataset/attribute objects", "container stand-in providing metador.query and an empty raw metadata store"],
    "assumptions": [],
}


def plan(tier, seed):
    import vt.harness.c15 as HC  # noqa
    parts = [Part(H, "nav", {"prim": p}, 120, 30, "(I1) derived wrappers keep all flags; nothing above the local root") for p in HC.NAV]
    parts += [Part(H, "mutate", {"m": m}, 120, 30, "(I2) read_only: mutator raises, raw object sees no mutating call") for m in HC.MUT]
    parts += [Part(H, "skel", {"m": m}, 120, 30, "(I2) skel_only: no dataset content / attribute value / metadata object is read") for m in HC.READS]
    parts.append(Part(H, "restrict_monotone", {}, 300, 30, "(I3) restrict() only adds flags"))
    parts.append(Part(H, "mutators_known", {}, 30, 30, "mutator list covers protocol + _self_RO_FORBIDDEN + MutableMapping mixins"))
    return parts


def confirm(part, kwargs, native):
    return {"confirmed": True, "key": f"{part.func}:{json.dumps(part.sel, sort_keys=True)}",
            "what": f"{part.func} sel={part.sel} flags={json.dumps(kwargs)}: {native.get('exc') or 'oracle false'} (real wrapper classes; recording raw objects)"}
