"""C15 — node restrictions cannot be escaped by navigating the container (DESIGN 4/C15)."""
import json

from vt.runner import Part, replay_native

H = "vt.harness.c15"
HR = "vt.harness.c15_real"

META = {
    "technique": "CrossHair (z3) symbolic execution of the real MetadorNode/MetadorGroup/MetadorDataset/WrappedAttributeManager/MetadorMeta guards with the three ACL flags as symbolic booleans: one-step induction over every navigation primitive and every mutating/reading member, recording raw objects",
    "explanation": "bounded symbolic execution of the real functions; exhaustive over all flag combinations per primitive; inductive over navigation chains of any length",
    "bounds": {"quick": {"nav": "22 navigation primitives (incl. the upward members parent/file applied to every derived node, datasets too) x all flag combinations (restrict: all 64 combinations of old/new flags)",
                          "mutate": "22 mutating members (group, dataset, attribute manager incl. MutableMapping mixins, metadata) on read_only nodes",
                          "skel": "14 reading members on skel_only nodes", "restrict_monotone": "all 512 flag triples",
                          "closure": "real container stack on the substrate (plain file and IH5 record with a patch boundary, reopened), 6 start nodes (the container object itself, root wrapper, groups at depth 1/2, datasets at depth 2/3) x 8 flag combinations (solver-chosen, realised), navigation chains of ANY length (the set of reached (node, flags, local root) states is closed under all primitives; fixpoint after <= 12 rounds, checked) over parent/file/restrict/query(3 schemas)/values/items/getitem/get/require_group/visititems/absolute paths, then 20+ mutators and 10 readers on every node reached"}},
    "outside": ["bypassing through __wrapped__/private attributes (documented as soft restrictions)", "widgets' and packers' own use of restricted nodes",
                "real h5py objects (recording mocks stand in for raw nodes)"],
    "stubs": ["numpy.cumproduct import shim", "recording raw group/dataset/attribute objects", "container stand-in providing metador.query and an empty raw metadata store (one-step harnesses only; the closure partitions use the real container)", "in-memory h5py substrate for the closure partitions (counterexamples are replayed on real h5py files)"],
    "assumptions": [],
}


def plan(tier, seed):
    import vt.harness.c15 as HC  # noqa
    parts = [Part(H, "nav", {"prim": p}, 120, 30, "(I1) derived wrappers keep all flags; nothing above the local root") for p in HC.NAV]
    parts += [Part(H, "mutate", {"m": m}, 120, 30, "(I2) read_only: mutator raises, raw object sees no mutating call") for m in HC.MUT]
    parts += [Part(H, "skel", {"m": m}, 120, 30, "(I2) skel_only: no dataset content / attribute value / metadata object is read") for m in HC.READS]
    parts.append(Part(H, "restrict_monotone", {}, 300, 30, "(I3) restrict() only adds flags"))
    parts.append(Part(H, "mutators_known", {}, 30, 30, "mutator list covers protocol + _self_RO_FORBIDDEN + MutableMapping mixins"))
    for drv in ("h5", "ih5"):
        parts.append(Part(HR, "closure", {"drv": drv}, 600 if tier == "quick" else 3000, 120,
                          "navigation closure on the real container stack (real query, metadata, both drivers): flags kept, "
                          "local_only stays inside, read_only refuses every mutator (store unchanged), skel_only yields nothing"))
    parts.append(Part(HR, "meta_raw", {"drv": "h5"}, 300, 120,
                      "MetadorMeta.values()/items() of a restricted node hand out no raw (unwrapped) node"))
    return parts


def confirm(part, kwargs, native):
    if part.module == HR and part.func == "meta_raw":
        r = replay_native(Part(part.module, part.func, dict(part.sel, realfs=1)), repr(kwargs))
        rp = r.get("replay") or {}
        if rp.get("ok", False):
            return {"confirmed": False, "what": "does not reproduce on real h5py files", "stage2": rp}
        if rp.get("exc"):
            return {"harness_error": "real-file replay crashed: " + str(rp.get("exc"))[:400]}
        return {"confirmed": True, "key": "meta-values-raw-node", "stage2": rp,
                "what": "MetadorMeta.values()/items() of a read_only/local_only node return StoredMetadata records whose .node is the raw "
                        "bookkeeping dataset (its .file/.parent are unrestricted raw objects): " + str((r.get("notes") or [""])[0])[:200]}
    if part.module == HR:
        # stage 2: the same closure on real h5py files
        r = replay_native(Part(part.module, part.func, dict(part.sel, realfs=1)), repr(kwargs))
        rp = r.get("replay") or {}
        notes = r.get("notes") or []
        if rp.get("ok", False):
            return {"confirmed": False, "what": "does not reproduce on real h5py files", "stage2": rp}
        if rp.get("exc"):
            return {"harness_error": "real-file replay crashed: " + str(rp.get("exc"))[:400] + str(rp.get("tb", ""))[-600:]}
        what = str(notes[0])[:500] if notes else "oracle false"
        return {"confirmed": True, "key": "closure:" + what[:100], "stage2": rp,
                "what": f"{part.sel.get('drv')} driver, real h5py files, {json.dumps(kwargs)}: {what}"}
    return {"confirmed": True, "key": f"{part.func}:{json.dumps(part.sel, sort_keys=True)}",
            "what": f"{part.func} sel={part.sel} flags={json.dumps(kwargs)}: {native.get('exc') or 'oracle false'} (real wrapper classes; recording raw objects)"}
