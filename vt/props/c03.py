"""C03 — close/reopen reproduces the view; open modes follow the h5py contract (DESIGN 4/C03)."""
import itertools
import json

from vt.runner import Part, replay_native

H = "vt.harness.rec"

META = {
    "technique": "CrossHair (z3) symbolic execution of the real IH5Record/IH5MFRecord __init__ mode dispatch, _open, _create, find_files, list_records, discard_patch, close over an in-memory file system: symbolic mode string, on-disk situation, file order and record names",
    "explanation": "bounded symbolic execution of the real functions; exhaustive within the stated bounds",
    "bounds": {
        "quick": {"modes": "mode: ANY string of length <= 2 (symbolic; the six documented modes and every other string) x 6 on-disk situations (absent, uncommitted base, committed base, patched, uncommitted patch, patched twice) x {IH5Record, IH5MFRecord}",
                  "reopen": "5 situations x every order of the (<=3) container files x any mode string of length <= 2, by name and by explicit list",
                  "discovery": "two records with names over the alphabet {a,b,-,1}, length 1..2 (prefix-related names included), each with base+patch+manifest files in one directory",
                  "name_validity": "any string of length <= 2"},
        "thorough": {"discovery": "alphabet {a,b,A,-,1,0}"},
    },
    "outside": ["case-insensitive file systems, real pathlib.glob", "user blocks larger than 512 bytes", "concurrent processes",
                "record names longer than 2 characters in the CrossHair run (regex constants are as in the repo)"],
    "stubs": ["numpy.cumproduct import shim", "fakeh5 substrate as h5py + in-memory FS for open/Path (vt.substrate)", "uuid1 replaced by a fresh-UUID counter",
              "pydantic.BaseModel.copy run natively"],
    "assumptions": ["substrate fidelity (conformance-tested against real h5py, incl. file modes and user blocks)"],
}


def prechecks(tier):
    return [("vt.substrate.conformance", "precheck", {"n": 60})]


def plan(tier, seed):
    parts = []
    for c, sit in itertools.product(("ih5", "mf"), range(6)):
        parts.append(Part(H, "modes", {"cls": c, "sit": sit}, 300, 60,
                          "open mode table (h5py.File contract lifted to records), strictly read-only 'r', x/w- refuse, w replaces, discard returns to last commit; no existing file altered unless the mode asks for it"))
    for c in ("ih5", "mf"):
        for sit in range(1, 6):
            parts.append(Part(H, "reopen", {"cls": c, "sit": sit}, 600, 60, "reopen by name / by explicit list in any order shows the same view", weight=3))
    alph = "ab-1" if tier == "quick" else "abA-10"
    for c1 in alph:
        for l1 in (1, 2):
            parts.append(Part(H, "discovery", {"alphabet": alph, "c1": c1, "l1": l1}, 900 if tier == "quick" else 6000, 120,
                              "find_files / list_records / _infer_name keep prefix-related records apart", weight=4 * l1))
    parts.append(Part(H, "name_validity", {}, 300, 60, "record name validity == [A-Za-z0-9-]+"))
    # file lists in any order with any (also two-digit) patch indices: a coherent chain is found and accepted
    # regardless of list order (chain harness of C04: symbolic indices 0..12, symbolic links)
    for n, h in ((2, [1, 1]), (2, [1, 0]), (3, [1, 1, 1]), (3, [1, 1, 0])):
        parts.append(Part("vt.harness.c04", "chain", {"n": n, "h": h}, 600, 60,
                          "explicit file list in any order: accepted iff it is a coherent chain (ordering by patch index is numeric)"))
    return parts


def confirm(part, kwargs, native):
    """Stage 2: the same scenario on real h5py files in a temp directory."""
    if part.module.endswith("c04"):
        from vt.props import c04
        return c04.confirm(part, kwargs, native)
    from vt import recreplay
    return recreplay.confirm(part, kwargs, native)


def smt(tier, rep):
    """Record-name validity decided on the real pattern with Python's anchor semantics (CrossHair's regex model
    treats `$` as end-of-string only, so the name_validity partition cannot see a trailing newline)."""
    import re
    import vt.npshim  # noqa: F401
    import z3
    from metador_core.ih5.record import IH5Record
    from vt.smt import rx as R

    seen = []
    orig = {k: getattr(re, k) for k in ("match", "fullmatch", "search")}
    try:
        for k in orig:
            setattr(re, k, (lambda kk: lambda pat, string, *a, **kw: (seen.append((kk, pat)), orig[kk](pat, string, *a, **kw))[1])(k))
        IH5Record._is_valid_record_name("x")
    finally:
        for k, v in orig.items():
            setattr(re, k, v)
    out = []
    if len(seen) != 1:
        return [{"name": "N0: _is_valid_record_name performs exactly one regex test", "result": "unknown", "expected": "unsat",
                 "inconclusive": True, "time_s": 0, "queries": 0, "states": 0, "seen": repr(seen)}]
    func, pat = seen[0]
    s = z3.String("s")
    lang = R.rx_py(pat, func)
    spec = z3.Plus(z3.Union(z3.Range("a", "z"), z3.Range("A", "Z"), z3.Range("0", "9"), z3.Re("-")))
    out.append(R.query("N1: names accepted by re.%s(%r) are exactly [A-Za-z0-9-]+ (no trailing newline etc.)" % (func, pat),
                       [z3.Xor(z3.InRe(s, lang), z3.InRe(s, spec))], want=[s]))
    out.append(R.query("W: witness - some valid record name exists (reachability twin)", [z3.InRe(s, lang), z3.Length(s) > 3],
                       expect="sat", want=[s]))
    for rec in out:
        if rec["result"] != rec["expected"]:
            if rec["result"] == "sat" and rec["name"].startswith("N1"):
                w = list(rec.get("model", {}).values())[0]
                ok = bool(w) and all(c.isascii() and (c.isalnum() or c == "-") for c in w)
                rep.replayed += 1
                if IH5Record._is_valid_record_name(w) != ok:
                    rep.violations.append({"partition": "smt:" + rec["name"], "kwargs": {"witness": w}, "module": "", "func": "",
                                           "what": f"record name {w!r}: _is_valid_record_name gives {not ok}, expected {ok}",
                                           "key": "smt:N1"})
                else:
                    rec["inconclusive"] = True
                    rep.inconclusive.append({"partition": "smt:" + rec["name"], "witness": w, "what": "witness does not reproduce natively"})
            else:
                rec["inconclusive"] = True
    return out
