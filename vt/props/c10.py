"""C10 — patches built on a stub apply to the real record with the same result (DESIGN 4/C10)."""
import json

from vt.runner import Part

H = "vt.harness.c10"

META = {
    "technique": "CrossHair (z3) exploration of symbolic container stacks written as IH5MFRecord records on the in-memory file system; real skeleton.py/manifest.py: stub skeleton == real skeleton, stub exposes no data, merge refused; an existence-based update applied via a stub-made patch and directly gives the same record; manifest sidecar == hash/uuid in the container and == current skeleton after every commit; manifest extensions persist until overridden",
    "explanation": "bounded symbolic exploration (kinds and update choice realised by solver-driven branching); exhaustive within the stated bounds",
    "bounds": {"quick": {"stack": "2 containers (+1 empty patch carrying the manifest) over universe {a, a/x, attr a@k}", "update": "one of 10 existence-based operations"},
               "thorough": {"stack": "3 containers over {a, a/x}; 2 over {a, a/x, a/y}"}},
    "outside": ["YAML/JSON parsing of manifest files by pydantic", "'@' in keys", "updates that read data (excluded by the property)"],
    "stubs": ["numpy.cumproduct import shim", "fakeh5 substrate + in-memory FS", "uuid1 counter", "IH5Manifest.parse_file reads from the in-memory FS"],
    "assumptions": ["substrate fidelity (conformance-tested)", "Inv over-approximates reachable stacks"],
}

SERIAL_TRIAGE = True  # confirm() uses in-process substrate state (history search)


def prechecks(tier):
    return [("vt.substrate.conformance", "precheck", {"n": 60})]


def plan(tier, seed):
    parts = []
    cfgs = [("ax_k", 2), ("rootk", 2), ("ax_xk", 2)] if tier == "quick" else [("ax_k", 2), ("rootk", 2), ("ax_xk", 2), ("ax", 3), ("axy", 2)]
    for u, n in cfgs:
        for fu in (range(12) if u == "ax_k" else (0, 2, 10, 11, 3)):
            parts.append(Part(H, "stub", {"n": n, "u": u, "fu": fu}, 900 if tier == "quick" else 5000, 120,
                              "stub skeleton == real; no data in stub; merge refused; stub-made patch accepted by the real record with the same result as the direct update; manifest == container after every commit; extensions persist", weight=n))
    parts.append(Part(H, "exts_history", {}, 900 if tier == "quick" else 3000, 120,
                      "(S4) over histories with interrupted patches / discards / reopens: manifest of the last commit available, "
                      "extensions persist until overridden, sidecar == container after every commit; edited sidecar refused under an uncommitted patch"))
    return parts


def confirm(part, kwargs, native):
    if part.func == "exts_history":
        from vt import history as HI
        from vt import mfhist
        acts = [mfhist.ACTS[kwargs[k]] for k in ("a1", "a2", "a3")]
        script = mfhist.SCRIPT % {"acts": acts, "tamper": bool(kwargs.get("tamper"))}
        rc, out = HI.run_script(script)
        if rc == 0:
            return {"confirmed": False, "what": "does not reproduce on real h5py files", "script": script}
        if rc != 1 or "MISMATCH" not in out:
            return {"harness_error": "real-file replay crashed: " + out[-800:]}
        return {"confirmed": True, "key": "exts_history:" + ",".join(acts) + (":tamper" if kwargs.get("tamper") else ""), "script": script,
                "what": f"manifest history {acts} tamper={bool(kwargs.get('tamper'))}: " + " | ".join(l for l in out.splitlines() if l.startswith("MISMATCH"))[:400]}
    import vt.part as P
    P.NATIVE = True
    P.SEL.clear()
    P.SEL.update(part.sel)
    import vt.harness.c01 as HC
    import vt.harness.c05 as H5
    import vt.harness.c10 as H10
    from vt import history as HI
    from vt.substrate import fakeh5

    sel = part.sel
    n, uni = sel.get("n", 2), sel.get("u", "ax_k")
    names = ["k%d%d" % (i, j) for i in range(4) for j in range(4)]
    kinds = HC.realise(uni, HC._apply_fix(HC._kinds([kwargs[x] for x in names], n)), n)
    files = H5.fs_record(uni, kinds, n)
    shapes = [HI.raw_shape(fakeh5.FS[f].root) for f in files]
    paths, attrs = HC.UNIVERSES[uni]
    hist = HI.find_history(shapes, paths, sorted({k for _, k in attrs}) or ["k"], maxlen=4, mkrecord=HC.mkrecord)
    if hist is None:
        return {"confirmed": False, "what": "no public-API history (<=4 ops per container) produces this raw stack"}
    fo = H10.FOLLOW[sel.get("fu", kwargs.get("fu", 0))]
    script = HI.make_stub_script(hist + [[]], (fo[0], fo[1], None))
    rc, out = HI.run_script(script)
    if rc == 0:
        return {"confirmed": False, "history": hist, "what": "history found, but the real libraries satisfy all stub/manifest clauses; notes=" + json.dumps(native.get("notes", ""))[:300]}
    if rc != 1:
        return {"harness_error": "replay script crashed: " + out[-800:]}
    mism = [l for l in out.splitlines() if l.startswith("MISMATCH")]
    kind = mism[0].split("'")[1] if mism else "?"
    return {"confirmed": True, "key": "stub:" + kind, "script": script, "history": hist,
            "what": f"real record history {hist}, update {fo}: " + " | ".join(mism)[:500]}
