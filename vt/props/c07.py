"""C07 — metadata comes back as stored and queries are exact (DESIGN 4/C07 + 9)."""
import itertools
import json

from vt.props import c06 as C6
from vt.runner import Part

META = {
    "technique": "CrossHair (z3): (a) symbolic schema versions through the real MetadorMeta.query/_get_raw, TOCSchemas.versions/children/_update_parents_children and PluginRef.supports on a stand-in node, against a brute-force specification; (b) exploration of bounded container action sequences on the real MetadorContainer stack (see C06) with a reference model of attached metadata: stored object comes back equal, parent-schema views, one object per schema, unknown schemas refused, node/group/container queries exact",
    "explanation": "bounded symbolic execution / exploration; exhaustive within the stated bounds",
    "bounds": {
        "quick": {"query kernel": "stored file and/or imagefile object, versions (major, minor) of stored file, stored imagefile, imagefile's declared parent and of the request all in {0,1} (realised by hashing); request for core.file / core.imagefile / an unknown schema, with or without version",
                  "sequences": "every sequence of 2 actions out of 26 on both drivers (3 on the plain driver via C06)"},
        "thorough": {"query kernel": "versions in {0,1,2}", "sequences": "3 actions on both drivers"},
    },
    "outside": ["equality of a parsed object with the stored one beyond the harness' three installed schemas (serialisation itself: C12)",
                "multi-version class resolution in the plugin system (C16)", "auxiliary schemas (none installed)"],
    "stubs": C6.META["stubs"] + ["stand-in MetadorMeta/TOCSchemas instances created with __new__ (query kernel)", "PluginRef.construct"],
    "assumptions": C6.META["assumptions"],
}

prechecks = C6.prechecks


def plan(tier, seed):
    parts = []
    for qn in (0, 1, 2):
        for hf, hi, qv in itertools.product((0, 1), repeat=3):
            if not (hf or hi):
                continue
            parts.append(Part("vt.harness.c07", "query", {"qn": qn, "hf": hf, "hi": hi, "qv": qv, "vb": 1 if tier == "quick" else 2}, 600 if tier == "quick" else 6000, 60,
                              "node query == {same schema or descendant schema in a version-compatible release}; exact schema first; membership agrees"))
    k = 2 if tier == "quick" else 3
    import vt.contactions as HC  # noqa
    for drv in ("h5", "ih5"):
        for first in range(len(HC.ACTIONS)):
            parts.append(Part("vt.harness.cont", "seq", {"drv": drv, "k": (k if drv == "h5" else 2), "first": first, "init": first % 2}, 900 if tier == "quick" else 8000, 300,
                              "stored object returned equal; parent views valid; one per schema; queries exact at node/group/container level"))
    import vt.contactions as _CA
    for sel in _CA.mirror_sels():
        parts.append(Part("vt.harness.cont", "seq", dict(sel, **{}), 900 if tier == "quick" else 3000, 300, "container level, mirrored names (g/g/e2 exists, g/e2 free): operations through sub-group handles resolve relative targets against the handle on both drivers", weight=2))
    return parts


def confirm(part, kwargs, native):
    if part.module.endswith("cont"):
        return C6.confirm(part, kwargs, native)
    return {"confirmed": True, "key": f"query:{json.dumps(part.sel, sort_keys=True)}",
            "what": f"query kernel sel={part.sel} versions={json.dumps(kwargs)}: {native.get('exc') or 'selection differs from the specification'}"}
