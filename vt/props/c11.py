"""C11 — a crash while patching never damages what was committed (DESIGN 4/C11)."""
import json

from vt.runner import Part, replay_native

H = "vt.harness.c11"

META = {
    "technique": "CrossHair (z3) exploration with a symbolic crash point: (a) torn user-block write (new prefix + old suffix at every cut) through the real IH5UserBlock.load/_open; (b) simulated process death at every mutating file-system primitive while a patch is created, filled and committed through the real IH5Record/IH5MFRecord; three-way outcome oracle + byte identity of committed files",
    "explanation": "bounded symbolic exploration (cut point / crash step realised by solver-driven branching); exhaustive within the stated bounds",
    "bounds": {
        "quick": {"torn": "every cut point 0..len(block) of the commit's user-block write, for base commit and patch commit, IH5Record and IH5MFRecord",
                  "crash": "every one of the (12-20) mutating primitives of: open r+ (create or continue patch), 3 data/attribute operations, commit, close; from 4 on-disk situations; IH5Record and IH5MFRecord"},
        "thorough": {"(same as quick)": ""},
    },
    "outside": ["kills inside an h5py/HDF5 library write (payload is abstract)", "fsync/rename durability, write reordering on power loss",
                "tearing of writes other than the user block (manifest files are written after the container is committed)"],
    "stubs": ["numpy.cumproduct import shim", "fakeh5 substrate + in-memory FS with crash injection (BaseException at the N-th mutating primitive)", "uuid1 counter"],
    "assumptions": ["a write() of the user block is applied as a prefix (no reordering inside the 1 KiB block)", "SHA-256 idealised"],
}


def plan(tier, seed):
    parts = []
    for c in ("ih5", "mf"):
        for sit in (1, 4):
            ranges = ((0, 90), (91, 180), (181, 400)) if c == "ih5" else ((0, 120), (121, 240), (241, 360), (361, 700))
            for lo, hi in ranges:
                parts.append(Part(H, "torn", {"cls": c, "sit": sit, "klo": lo, "kmax": hi}, 600, 60,
                                  "torn user block: load raises or yields exactly the old or the new block; record fails to open / shows uncommitted patch / shows fully committed state"))
        for sit in (2, 3, 4, 5):
            parts.append(Part(H, "crash", {"cls": c, "sit": sit}, 600, 60,
                              "death at any mutating primitive: committed files byte-identical and open alone with the committed view; full set: fails / uncommitted patch recognisable / fully committed new state"))
    # recovery attempts after a crash (opening a strict prefix of the chain writable, reopening, discarding)
    # never delete or modify committed containers (frame oracle of C02 on the relevant action sequences)
    for c in ("ih5", "mf"):
        for first in (18, 1, 2):
            parts.append(Part("vt.harness.rec", "frames", {"cls": c, "k": 2, "first": first}, 600, 120,
                              "recovery attempts leave every committed container byte-identical"))
    # recognisability: an uncommitted container is tolerated only as the newest one and a stored hash
    # always has to verify (chain harness of C04; these are the clauses a crash-left file set relies on)
    import itertools
    for n in (1, 2, 3):
        for h in itertools.product((0, 1, 2), repeat=n):
            if 0 in h or 2 in h:
                parts.append(Part("vt.harness.c04", "chain", {"n": n, "h": list(h)}, 600, 60,
                                  "a file set with an uncommitted inner container or a non-verifying hash (as left by a crash + later activity) never opens"))
    return parts


def confirm(part, kwargs, native):
    if part.module.endswith("c04"):
        from vt.props import c04
        return c04.confirm(part, kwargs, native)
    if part.module.endswith("rec"):
        from vt import recreplay
        return recreplay.confirm(part, kwargs, native)
    if part.func == "torn":
        p2 = Part(H, part.func, dict(part.sel, realfs=1))
        r = replay_native(p2, repr(kwargs))
        rp = r.get("replay") or {}
        if rp.get("ok", False):
            return {"confirmed": False, "what": "does not reproduce on real h5py files", "stage2": rp}
        return {"confirmed": True, "key": f"torn:{json.dumps(part.sel, sort_keys=True)}", "stage2": rp,
                "what": f"torn user block at cut {kwargs.get('k')} sel={part.sel}: {rp.get('exc') or r.get('notes')}"}
    # crash points exist only on the substrate (fault injection); the native substrate replay is the confirmation
    return {"confirmed": True, "key": f"crash:{json.dumps(part.sel, sort_keys=True)}:{kwargs.get('step')}",
            "what": f"crash at step {kwargs.get('step')} sel={part.sel}: notes={native.get('notes') if isinstance(native, dict) else ''}"}
