"""C18 — directory diffs exact and safely ordered (DESIGN 4/C18)."""
import itertools
import json

from vt.runner import Part, replay_native

H = "vt.harness.c18"

META = {
    "technique": "CrossHair symbolic execution (z3) of the real DiffNode.compare/nodes/status/_type and DirDiff.get over symbolic directory trees (shape by partition + symbolic kinds, symbolic leaf strings) against a path-set oracle and an ordered-replay oracle",
    "explanation": "bounded symbolic execution of the real functions; exhaustive within the stated bounds",
    "bounds": {
        "quick": {"universe u1": "paths a, b, a/x, a/y; every entry absent / file / directory (directories may be empty); both trees independent",
                  "leaf values": "any string of length 1 (compare only uses ==); symlink classification: strings <= 3 chars after each of 5 prefixes",
                  "partitions": "kinds of a and b in both trees fixed per partition (81), the rest symbolic"},
        "thorough": {"universe u2": "adds a/x/p and b/x (depth 3)", "leaf values": "length <= 2"},
    },
    "outside": ["annotate() and dir_paths() (read a real directory)", "more than 2-3 siblings per directory / depth > 3",
                "empty-string entries (hashsums are never empty)"],
    "stubs": ["numpy.cumproduct import shim", "pure-Python pydantic 1.10 sources (real=1 partitions run the real DiffNode model with symbolic leaves)",
              "stand-in node class N re-using DiffNode's real function objects (checked natively against DiffNode by standin())"],
    "assumptions": ["CrossHair/z3 model of CPython dict/set/str/Path operations"],
}


def prechecks(tier):
    return [(H, "standin", {"pure_pydantic": True})]


def plan(tier, seed):
    ct = 400 if tier == "quick" else 3000
    parts = []
    u, maxlen = ("u1", 1) if tier == "quick" else ("u2", 2)
    ob = "is_empty <=> equal; listed paths == changed paths (+ changed ancestors) with right status/old/new; ordered replay old->new legal; get(p) agrees"
    for a0, a1, b0, b1 in itertools.product((0, 1, 2), repeat=4):
        sel = {"u": u, "maxlen": maxlen, "fa": {"0": a0, "1": a1}, "fb": {"0": b0, "1": b1}}
        w = 1 + 3 * (a0 == 2) + 3 * (b0 == 2)
        if tier == "thorough" and a0 == 2 and b0 == 2:
            for ax, bx in itertools.product((0, 1, 2), repeat=2):
                s2 = json.loads(json.dumps(sel))
                s2["fa"]["2"], s2["fb"]["2"] = ax, bx
                parts.append(Part(H, "diff", s2, ct, 60, ob, pure_pydantic=True, weight=w))
        else:
            parts.append(Part(H, "diff", sel, ct, 60, ob, pure_pydantic=True, weight=w))
        if a1 == 0 and b1 == 0:  # same partition on the real pydantic DiffNode class
            parts.append(Part(H, "diff", dict(sel, real=1, u="u1", maxlen=1), ct, 60, ob + " (real DiffNode model)",
                              pure_pydantic=True, weight=w * 1.5))
    for pre in range(5):
        parts.append(Part(H, "kinds", {"pre": pre}, 120, 30, "entity kind of a changed leaf: symlink iff entry starts with 'symlink:'",
                          pure_pydantic=True))
        parts.append(Part(H, "kinds", {"pre": pre, "real": 1}, 120, 30, "same on the real DiffNode model", pure_pydantic=True))
    return parts


def confirm(part, kwargs, native):
    p2 = Part(part.module, part.func, dict(part.sel, real=1), pure_pydantic=False)
    r = replay_native(p2, repr(kwargs))
    rp = r.get("replay") or {}
    if rp.get("ok", False):
        return {"harness_error": f"counterexample {kwargs} fails with the stand-in node class but not with the real DiffNode"}
    return {"confirmed": True, "key": f"{part.func}:{json.dumps(part.sel, sort_keys=True)}", "stage2": rp,
            "what": f"{part.func} sel={part.sel}: {rp.get('exc') or 'oracle false'} for {json.dumps(kwargs)[:300]}",
            "script": f'''# replay of a solver counterexample for C18 on the real DiffNode/DirDiff
import sys, json
sys.path.insert(0, "/verif")
import vt.part as P
P.NATIVE = True
P.SEL.update({json.dumps(dict(part.sel, real=1))})
import vt.npshim
import {part.module} as H
ok = H.{part.func}(**{kwargs!r})
print("property holds on this input:", ok)
sys.exit(0 if ok else 1)
'''}
