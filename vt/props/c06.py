"""C06 — container TOC and attached metadata stay in exact one-to-one sync (DESIGN 9: deviation, now claimed).

Also the home of the container-level action-sequence harness used by C07 (metadata retrieval/queries),
C08 clause (d), C09 container level and the bookkeeping part of C20."""
import json

from vt.runner import Part, replay_native

H = "vt.harness.cont"

META = {
    "technique": "CrossHair (z3) exploration of bounded sequences of container actions (choices are symbolic ints realised by solver-driven branching) on the real MetadorContainer/MetadorMeta/TOCLinks/TOCSchemas/TOCPackages stack over the in-memory substrate, plain-HDF5 driver and IH5 driver with patch boundaries and reopen points; after every action: reference model of tree+metadata, raw-tree bookkeeping invariants, index rebuilt from disk",
    "explanation": "bounded exploration; exhaustive over all action sequences of the stated length; the real code runs natively once the choices are concrete (tracing the TOC stack under CrossHair is not feasible, see DESIGN 9)",
    "bounds": {
        "quick": {"sequences": "every sequence of 3 actions (plain driver) / 2 actions (IH5 driver) out of 26 (attach/delete metadata of 3 schemas incl. a parent/child pair on 3 nodes, kept vs fresh metadata handles, delete/copy (with and without metadata)/move of datasets and groups, create, reopen, patch boundary, unknown schema)",
                  "drivers": "plain HDF5 file and IH5Record (substrate)", "start state": "dataset d, group g, dataset g/e"},
        "thorough": {"sequences": "every sequence of 3 actions on both drivers"},
    },
    "outside": ["moving a node into its own subtree", "schemas other than core.file/core.imagefile/core.dir; auxiliary schemas (none installed)",
                "histories longer than the stated length", "real h5py (substrate; counterexamples are replayed on real h5py files)"],
    "stubs": ["numpy.cumproduct import shim", "fakeh5 substrate + in-memory FS", "uuid1 counter in ih5.record/manifest (container uuids use the real uuid1)"],
    "assumptions": ["substrate fidelity (conformance-tested)"],
}


def prechecks(tier):
    return [("vt.substrate.conformance", "precheck", {"n": 60})]


def plan(tier, seed, drivers=("h5", "ih5")):
    parts = []
    import vt.contactions  # noqa
    n = len(vt.contactions.ACTIONS)
    for drv in drivers:
        k = 3 if (tier != "quick" or drv == "h5") else 2
        for first in range(n):
            # from a container that already carries metadata of three schemas (written in an earlier session)
            parts.append(Part(H, "seq", {"drv": drv, "k": 3 if (tier != "quick" and drv == "h5") else 2, "first": first, "init": 1},
                              900 if tier == "quick" else 8000, 300, "same invariants, starting from a populated, reopened container", weight=2))
            parts.append(Part(H, "seq", {"drv": drv, "k": k, "first": first}, 900 if tier == "quick" else 8000, 300,
                              "after every action: TOC links <-> attached objects one-to-one, uuids unique, schema/package records exactly for schemas in use, no empty bookkeeping groups, in-memory index == disk; metadata comes back, queries exact; user tree == model",
                              weight=2))
    import vt.contactions as _CA
    for sel in _CA.mirror_sels():
        parts.append(Part("vt.harness.cont", "seq", dict(sel, **{}), 900 if tier == "quick" else 3000, 300, "container level, mirrored names (g/g/e2 exists, g/e2 free): operations through sub-group handles resolve relative targets against the handle on both drivers", weight=2))
    return parts


def confirm(part, kwargs, native):
    p2 = Part(part.module, part.func, dict(part.sel, realfs=1))
    r = replay_native(p2, repr(kwargs))
    rp = r.get("replay") or {}
    notes = r.get("notes") or []
    if rp.get("ok", False):
        return {"confirmed": False, "what": "does not reproduce on real h5py files", "stage2": rp}
    if rp.get("exc"):
        return {"harness_error": "real-file replay crashed: " + str(rp.get("exc"))[:400] + str(rp.get("tb", ""))[-600:]}
    what = str(notes[0])[:700] if notes else "oracle false"
    return {"confirmed": True, "key": classify(what), "stage2": rp, "what": f"{part.sel.get('drv')} driver: {what}",
            "script": f'''# replay of a container action sequence on real h5py files
import sys
sys.path.insert(0, "/verif"); sys.path.insert(1, "/verif/vt/testplugins")
import vt.part as P
P.NATIVE = True
P.SEL.update({json.dumps(dict(part.sel, realfs=1))})
import vt.harness.cont as H
ok = H.seq(**{kwargs!r})
for n in P.NOTES:
    print("MISMATCH:", n)
print("property holds on this sequence:", ok)
sys.exit(0 if ok else 1)
'''}


def classify(what):
    for k in ("second object for the same schema accepted", "kept handle does not return", "action crashed"):
        if k in what:
            return "cont:" + k
    return "cont:" + what[:120]
