"""C16 — plugin references: order, match, resolve (DESIGN 4/C16)."""
import itertools
import json

from vt.runner import Part, replay_native

H = "vt.harness.c16"

META = {
    "technique": "CrossHair symbolic execution (z3) of the real PluginRef/PluginGroup code + direct z3 regex queries built from the repo's regex constants",
    "explanation": "bounded symbolic execution of the real functions; exhaustive within the stated bounds",
    "bounds": {
        "quick": {"order/supports": "group,name: any strings of length 1..2; version components: any ints >= 0 (unbounded)",
                  "hash_eq": "strings over {a,b} length 1, version components 0..1 (realised by hashing)",
                  "group": "<=3 registrations (any mix of _add_ep / register_in_group, any order, repeats allowed), 2 plugin names, major/minor 0..1 (realised), and for one name (0, minor 0..1, patch 0..1); every query (name, major 0..2, minor 0..2)",
                  "codec": "3 names x version components 0..999 (symbolic, not enumerated) via CrossHair; unbounded lengths via the z3 regex lemmas",
                  "semver": "components 0..20 (symbolic int<->str)"},
        "thorough": {"group": "major/minor 0..2", "codec": "version components 0..99999"},
    },
    "outside": ["entry-point names with leading zeros (x__01.0.0): accepted by the regex and canonicalised; name->(n,v)->name is not claimed",
                "importlib metadata discovery of entry points", "plugin checks in _load_plugin (stubbed in register harness)",
                "CPython int<->str round trip beyond the bounded CrossHair cross-check (assumed)"],
    "stubs": ["numpy.cumproduct import shim", "PluginRef.construct stand-in instances (symbolic fields)",
              "PGSchema instance created with __new__ and empty registries; EntryPoint objects replaced by a stub with .dist",
              "_load_plugin stubbed to a no-op in register/mixed harnesses"],
    "assumptions": ["z3 5.1 sequence/regex theory and CrossHair 0.0.110 model CPython str/int/tuple comparison faithfully",
                    "hash() of realised str/int tuples is CPython's"],
}


def plan(tier, seed):
    vb = 1 if tier == "quick" else 2
    ct = 200 if tier == "quick" else 1500
    parts = [
        Part(H, "order", {}, 120, 30, "total order agrees with tuple order; results are booleans"),
        Part(H, "supports", {}, 200, 30, "supports <=> same group,name,major and minor >="),
        Part(H, "hash_eq", {}, 120, 30, "eq => same hash; set/dict membership agrees with =="),
        Part(H, "semver", {}, 120, 30, "semver string codec round trip"),
        Part(H, "marker", {"route": "get"}, 60, 30, "class obtained without version cannot be subclassed (get)"),
        Part(H, "marker", {"route": "getitem"}, 60, 30, "class obtained without version cannot be subclassed (group[name])"),
        Part(H, "marker", {"route": "ref"}, 60, 30, "class obtained without version cannot be subclassed (ref / class argument)"),
        Part(H, "marker", {"route": "fields_origin"}, 60, 30, "the defining class of a field reached through a version-less handle (Fields[f].origin) is marked too"),
        Part(H, "marker", {"route": "handle_get"}, 60, 30, "a version-less handle passed as key to get() states no version either"),
        Part(H, "marker", {"route": "handle_getitem"}, 60, 30, "a version-less handle passed as key to group[...] states no version either"),
        Part(H, "marker", {"route": "get", "grp": "harvester"}, 60, 30, "version-less harvester classes cannot be subclassed"),
        Part(H, "marker", {"route": "getitem", "grp": "harvester"}, 60, 30, "version-less harvester classes cannot be subclassed (group[name])"),
        Part(H, "marker", {"route": "get", "grp": "packer"}, 60, 30, "version-less packer classes cannot be subclassed"),
        Part(H, "marker", {"route": "getitem", "grp": "packer"}, 60, 30, "version-less packer classes cannot be subclassed (group[name])"),
    ]
    for ni in range(3):
        parts.append(Part(H, "codec", {"ni": ni, "vb": 999 if tier == "quick" else 99999}, ct * 2, 60,
                          "from_ep_name(to_ep_name(n,v)) == (n,v)"))
    # registration sequences: names per registration (up to renaming of the two names) x
    # registration route per step (e = entry point via _add_ep, r = register_in_group)
    for pat in ("0", "00", "01", "000", "001", "010", "100"):
        for how in itertools.product("er", repeat=len(pat)):
            parts.append(Part(H, "group", {"pat": pat, "how": "".join(how), "vb": vb}, ct * 2, 30,
                              "versions() lists every registered version once, ascending; resolve = newest "
                              "supporting or None; keys/in agree (re-registration included)", weight=2))
    # versions that differ in the PATCH component only (same major.minor), registered in any order
    for pat in ("00", "000"):
        for how in itertools.product("er", repeat=len(pat)):
            parts.append(Part(H, "group", {"pat": pat, "how": "".join(how), "vb": vb, "vary": "mp"}, ct * 2, 30,
                              "as above with versions (0, minor, patch): releases differing only in the patch component "
                              "are listed ascending and the newest is resolved, whatever the registration order", weight=2))
    return parts


def _classify(func, kw):
    if func == "order":
        ta = (kw["g1"], kw["n1"], (kw["M1"], kw["m1"], kw["p1"]))
        tb = (kw["g2"], kw["n2"], (kw["M2"], kw["m2"], kw["p2"]))
        return "order:equal-refs" if ta == tb else "order:distinct-refs"
    return func


def confirm(part, kwargs, native):
    """Stage 2: same inputs through the validating public constructors (sel real=1)."""
    p2 = Part(part.module, part.func, dict(part.sel, real=1))
    r = replay_native(p2, repr(kwargs))
    rp = r.get("replay") or {}
    if rp.get("ok", False):
        return {"confirmed": False, "what": "does not reproduce with validated instances", "stage2": rp}
    return {"confirmed": True, "key": _classify(part.func, kwargs), "stage2": rp,
            "what": f"{part.func}{json.dumps(kwargs)} fails on the real classes: {rp.get('exc') or 'oracle false'}",
            "script": _script(part, kwargs)}


def _script(part, kwargs):
    return f'''# replay of a solver counterexample for C16 through the real metador_core classes
import sys, json
sys.path.insert(0, "/verif")
import vt.part as P
P.NATIVE = True
P.SEL.update({json.dumps(dict(part.sel, real=1))})
import numpy as np
if not hasattr(np, "cumproduct"):
    np.cumproduct = np.cumprod
import {part.module} as H
ok = H.{part.func}(**{kwargs!r})
print("property holds on this input:", ok)
sys.exit(0 if ok else 1)
'''


def smt(tier, rep):
    import vt.npshim  # noqa: F401
    import z3
    from metador_core.plugin import types as T
    from vt.smt import rx as R

    s = z3.String("s")
    out = []
    q = R.rx(T.QUAL_NAME)
    ep = R.rx(T.EP_NAME_REGEX)
    sep = z3.Re(T.EP_NAME_VER_SEP)
    any_ = R.anystr()
    D = R.canonical_decimal()
    ver = z3.Concat(D, z3.Re("."), D, z3.Re("."), D)
    out.append(R.query("L1: no valid plugin name contains the version separator",
                       [z3.InRe(s, q), z3.InRe(s, z3.Concat(any_, sep, any_))], want=[s]))
    out.append(R.query("L2: name+sep+canonical version is a valid entry-point name",
                       [z3.InRe(s, z3.Concat(q, sep, ver)), z3.Not(z3.InRe(s, ep))], want=[s]))
    out.append(R.query("L3: canonical decimals contain neither '.' nor '_'",
                       [z3.InRe(s, D), z3.InRe(s, z3.Concat(any_, z3.Union(z3.Re("."), z3.Re("_")), any_))], want=[s]))
    out.append(R.query("L4: a valid entry-point name contains the separator exactly once (split gives 2 parts)",
                       [z3.InRe(s, ep), z3.Or(z3.InRe(s, z3.Concat(any_, sep, any_, sep, any_)),
                                              z3.InRe(s, z3.Concat(any_, sep, z3.Re("_"), any_)))], want=[s]))
    out.append(R.query("L5: the version part of a valid entry-point name is digits.digits.digits (3 parts)",
                       [z3.InRe(s, R.rx(T.SEMVER_STR_REGEX)),
                        z3.Not(z3.InRe(s, z3.Concat(z3.Plus(z3.Range("0", "9")), z3.Re("."), z3.Plus(z3.Range("0", "9")),
                                                     z3.Re("."), z3.Plus(z3.Range("0", "9")))))], want=[s]))
    out.append(R.query("L6: every version component of a valid entry-point name is a canonical decimal (int -> str gives it back)",
                       [z3.InRe(s, R.rx(T.SEMVER_STR_REGEX)), z3.Not(z3.InRe(s, ver))], want=[s]))
    # non-vacuity twin: the languages are inhabited
    out.append(R.query("W: witness - some valid entry-point name exists (reachability twin)",
                       [z3.InRe(s, ep), z3.Length(s) > 8], expect="sat", want=[s]))
    for rec in out:
        if rec["result"] != rec["expected"]:
            if rec["result"] == "sat":
                _replay_lemma(rec, rep)
            else:
                rec["inconclusive"] = True
    return out


def _replay_lemma(rec, rep):
    """A satisfiable lemma negation: replay the witness string against the real codec."""
    from metador_core.plugin.types import EPName, from_ep_name, to_ep_name

    w = list(rec.get("model", {}).values())[0]
    bad = None
    try:
        if rec["name"].startswith("L1"):
            n, v = from_ep_name(to_ep_name(w, (1, 2, 3)))
            bad = (n, v) != (w, (1, 2, 3))
        elif rec["name"].startswith("L2"):
            EPName(w)
            bad = False
        elif rec["name"].startswith("L6"):
            e = EPName("xa.pa__" + w)
            bad = to_ep_name(*from_ep_name(e)) != e
            rec["replay_exc"] = "entry-point name %r -> %r -> %r" % (str(e), from_ep_name(e), str(to_ep_name(*from_ep_name(e))))
        elif rec["name"].startswith("L4") or rec["name"].startswith("L5"):
            n, v = from_ep_name(EPName(w)) if rec["name"].startswith("L4") else ("x", None)
            bad = False
        else:
            bad = None
    except Exception as e:  # noqa
        bad = True
        rec["replay_exc"] = type(e).__name__ + ": " + str(e)
    rep.replayed += 1
    if bad:
        rep.violations.append({"partition": "smt:" + rec["name"], "kwargs": {"witness": w}, "module": "", "func": "",
                               "what": f"regex lemma fails with witness {w!r}: {rec.get('replay_exc', 'round trip differs')}",
                               "key": "smt:" + rec["name"][:2]})
    else:
        rec["inconclusive"] = True
        rep.inconclusive.append({"partition": "smt:" + rec["name"], "witness": w,
                                 "what": "lemma negation satisfiable but the codec handles the witness"})
