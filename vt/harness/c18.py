"""C18 harnesses: DiffNode.compare / nodes / status / DirDiff.get on symbolic trees.

Tree *shape* = one kind per universe slot (0 absent, 1 file/symlink, 2 directory); the partition
fixes the kinds of the top-level slots, the solver chooses the rest and all leaf values
(symbolic strings, optionally carrying the `symlink:` prefix). Real DiffNode (pydantic model)
is used on the pure-Python pydantic build so that leaf strings stay symbolic.
"""
import vt.shims  # noqa: F401
from vt.part import SEL, reach
from pathlib import Path

from metador_core.util.diff import DiffNode, DirDiff

ENCODED = [DiffNode.compare, DiffNode.nodes, DiffNode.children, DiffNode.status, DiffNode._type,
           DirDiff.compare, DirDiff.get, DirDiff.status]

# universes: slot -> (name, parent slot or -1)
UNIVERSES = {
    "u1": [("a", -1), ("b", -1), ("x", 0), ("y", 0)],
    "u2": [("a", -1), ("b", -1), ("x", 0), ("y", 0), ("p", 2), ("x", 1)],
    "u3": [("a", -1), ("b", -1), ("c", -1), ("x", 0), ("y", 0), ("p", 3), ("q", 3), ("x", 1)],
}
NSLOT = 8


class N:
    """Plain stand-in for the pydantic container class DiffNode: same six fields, and the *real*
    function objects of DiffNode for every method (compare is a classmethod, so the repo code
    builds all nodes through `cls(path=..., prev=..., curr=...)`). Used because validating
    constructor calls cost ~0.3 s per path under tracing; `standin()` checks natively that
    both classes produce identical diffs, and the `real=1` partitions run the real class."""

    Status = DiffNode.Status
    ObjType = DiffNode.ObjType

    def __init__(self, path, prev, curr):
        self.path, self.prev, self.curr = path, prev, curr
        self.removed, self.modified, self.added = {}, {}, {}

    compare = classmethod(DiffNode.__dict__["compare"].__func__)
    nodes = DiffNode.__dict__["nodes"]
    children = DiffNode.__dict__["children"]
    status = DiffNode.__dict__["status"]
    _type = DiffNode.__dict__["_type"]
    prev_type = DiffNode.__dict__["prev_type"]
    curr_type = DiffNode.__dict__["curr_type"]


def _dirdiff(A, B):
    if SEL.get("real"):
        return DirDiff.compare(A, B)
    ret = DirDiff.__new__(DirDiff)  # what DirDiff.compare does, with the stand-in node class
    ret._diff_root = N.compare(A, B, Path(""))
    return ret


def build(uni, kinds, vals, syms):
    """kinds/vals/syms: per slot. Returns nested DirHashsums dict."""
    nodes = {}
    root = {}
    for i, (name, par) in enumerate(uni):
        k = kinds[i]
        if par == -1:
            parent = root
        else:
            parent = nodes.get(par)
            if not isinstance(parent, dict):
                continue  # parent is not a directory: slot unused
        if k == 0:
            continue
        if k == 1:
            parent[name] = ("symlink:" + vals[i]) if syms[i] else vals[i]
            nodes[i] = parent[name]
        else:
            parent[name] = {}
            nodes[i] = parent[name]
    return root


def flat(t, pre=""):
    out = {}
    for k, v in t.items():
        p = pre + k
        out[p] = v if not isinstance(v, dict) else "<dir>"
        if isinstance(v, dict):
            out.update(flat(v, p + "/"))
    return out


def lookup(t, p):
    cur = t
    for s in p.split("/"):
        if not isinstance(cur, dict) or s not in cur:
            return None
        cur = cur[s]
    return cur


class Illegal(Exception):
    pass


def apply_nodes(old, nodes):
    """Replay the listed nodes in order on a copy of the old tree; every step must be legal."""
    def cp(t):
        return {k: (cp(v) if isinstance(v, dict) else v) for k, v in t.items()}

    tree = cp(old)
    for n in nodes:
        p = str(n.path)
        if p == ".":
            continue
        segs = p.split("/")
        par = tree
        for s in segs[:-1]:
            if not isinstance(par, dict) or s not in par:
                raise Illegal("parent missing for " + p)
            par = par[s]
        if not isinstance(par, dict):
            raise Illegal("parent not a directory for " + p)
        name = segs[-1]
        st = n.status()
        if st == DiffNode.Status.removed:
            if name not in par:
                raise Illegal("remove of missing " + p)
            if isinstance(par[name], dict) and par[name]:
                raise Illegal("remove of non-empty directory " + p)
            del par[name]
        elif st == DiffNode.Status.added:
            if name in par:
                raise Illegal("add over existing " + p)
            par[name] = {} if isinstance(n.curr, dict) else n.curr
        elif st == DiffNode.Status.modified:
            if name not in par:
                raise Illegal("modify of missing " + p)
            if isinstance(n.prev, dict) and isinstance(n.curr, dict):
                if not isinstance(par[name], dict):
                    raise Illegal("dir expected at " + p)
                continue
            if isinstance(par[name], dict) and par[name]:
                raise Illegal("replace of non-empty directory " + p)
            par[name] = {} if isinstance(n.curr, dict) else n.curr
        else:
            raise Illegal("unchanged node listed " + p)
    return tree


def _oracle(A, B, uni_paths):
    dd = _dirdiff(A, B)
    fa, fb = flat(A), flat(B)
    changed = {p for p in set(fa) | set(fb) if fa.get(p) != fb.get(p)}
    reach()
    if dd.is_empty != (A == B):
        return False
    if dd.is_empty:
        if changed:
            return False
        for p in uni_paths:
            if dd.get(Path(p)) is not None or dd.status(dd.get(Path(p))) != DiffNode.Status.unchanged:
                return False
        return True
    nodes = dd._diff_root.nodes()
    listed = {}
    for n in nodes:
        p = str(n.path)
        if p in listed:
            return False  # listed twice
        listed[p] = n
    rep = set(listed) - {"."}
    if not changed <= rep:
        return False  # a changed path is missing
    for p in rep:
        n = listed[p]
        # reported entries carry the old and new entity and the right status
        if n.prev != lookup(A, p) or n.curr != lookup(B, p):
            return False
        exp = (DiffNode.Status.added if lookup(A, p) is None else
               DiffNode.Status.removed if lookup(B, p) is None else DiffNode.Status.modified)
        if n.status() != exp or dd.status(n) != exp:
            return False
        if p not in changed:
            # only directories that contain a change may be listed beyond the changed paths
            if not (isinstance(n.prev, dict) and isinstance(n.curr, dict)
                    and any(c.startswith(p + "/") for c in changed)):
                return False
        # entity kinds
        for ent, ty in ((n.prev, n.prev_type), (n.curr, n.curr_type)):
            want = (None if ent is None else DiffNode.ObjType.directory if isinstance(ent, dict)
                    else DiffNode.ObjType.symlink if ent.startswith("symlink:") else DiffNode.ObjType.file)
            if ty != want:
                return False
    # ordered replay transforms old into new, every step legal
    try:
        if apply_nodes(A, nodes) != B:
            return False
    except Illegal:
        return False
    # lookup by path agrees with the listing
    for p in uni_paths:
        g = dd.get(Path(p))
        if (g is None) != (p not in rep):
            return False
        if g is not None and g is not listed[p]:
            return False
    if dd.get(Path("zz")) is not None or dd.get(Path("a/zz/q")) is not None:
        return False
    return True


def diff(ak0: int, ak1: int, ak2: int, ak3: int, ak4: int, ak5: int, ak6: int, ak7: int,
         av0: str, av1: str, av2: str, av3: str, av4: str, av5: str, av6: str, av7: str,
         bk0: int, bk1: int, bk2: int, bk3: int, bk4: int, bk5: int, bk6: int, bk7: int,
         bv0: str, bv1: str, bv2: str, bv3: str, bv4: str, bv5: str, bv6: str, bv7: str) -> bool:
    """
    post: _
    """
    uni = UNIVERSES[SEL.get("u", "u1")]
    fixa, fixb = SEL.get("fa", {}), SEL.get("fb", {})
    ak = [ak0, ak1, ak2, ak3, ak4, ak5, ak6, ak7]
    bk = [bk0, bk1, bk2, bk3, bk4, bk5, bk6, bk7]
    av = [av0, av1, av2, av3, av4, av5, av6, av7]
    bv = [bv0, bv1, bv2, bv3, bv4, bv5, bv6, bv7]
    as_ = bs = [False] * NSLOT  # symlink-vs-file classification: see `kinds`
    for fix, ks in ((fixa, ak), (fixb, bk)):
        for i in range(len(uni)):
            if str(i) in fix:
                ks[i] = fix[str(i)]
    A = _build_checked(uni, ak, av, as_)
    if A is None:
        return True
    B = _build_checked(uni, bk, bv, bs)
    if B is None:
        return True
    paths = []
    for i, (name, par) in enumerate(uni):
        paths.append(name if par == -1 else paths[par] + "/" + name)
    return _oracle(A, B, paths)


def _build_checked(uni, ks, vs, ss):
    """Build a tree; None if the symbolic choice is outside the domain (kind range, leaf length)."""
    live = {}
    for i, (name, par) in enumerate(uni):
        if par != -1 and live.get(par) != 2:
            continue  # slot not reachable: never read its variables
        k = ks[i]
        if not (0 <= k <= 2):
            return None
        live[i] = k
        if k == 1 and not (1 <= len(vs[i]) <= SEL.get("maxlen", 1)):
            return None
    return build(uni, ks, vs, ss)


PREFIXES = ["", "symlink:", "symlink", "xsymlink:", "Symlink:"]


def kinds(rest: str, other: str) -> bool:
    """
    pre: len(rest) <= 3 and len(other) <= 3
    post: _
    """
    # entity classification of a changed leaf: symlink iff the entry starts with "symlink:"
    v = PREFIXES[SEL.get("pre", 0)] + rest
    if v == "" or other == "" or v == other:
        return True
    n = (DiffNode if SEL.get("real") else N).compare({"a": v}, {"a": other}, Path(""))
    reach()
    c = n.modified[Path("a")]
    want = DiffNode.ObjType.symlink if v.startswith("symlink:") else DiffNode.ObjType.file
    want2 = DiffNode.ObjType.symlink if other.startswith("symlink:") else DiffNode.ObjType.file
    return c.prev_type == want and c.curr_type == want2 and n.prev_type == DiffNode.ObjType.directory


def standin() -> int:
    """Native sanity of the harness itself (decides nothing about the property): the stand-in
    node class yields the same diff trees as the real DiffNode, and the ordered-replay oracle
    rejects an illegal order / accepts a legal one on hand-made node lists."""
    A = {"a": {"x": "h1", "y": {}}, "b": "h2"}
    B = {"a": "h3", "b": "h2", "c": {"q": "symlink:t"}}

    def dump(n):
        return None if n is None else (str(n.path), n.prev, n.curr, sorted(str(k) for k in n.removed),
                                       sorted(str(k) for k in n.modified), sorted(str(k) for k in n.added),
                                       [dump(c) for c in sorted(n.children(), key=lambda c: str(c.path))])
    for X, Y in ((A, B), (B, A), (A, A), ({}, B), (A, {})):
        assert dump(N.compare(X, Y, Path(""))) == dump(DiffNode.compare(X, Y, Path("")))
    # hand-made listing for old={"d": {"f": "1"}} -> new={"d": "2"}
    old, new = {"d": {"f": "1"}}, {"d": "2"}
    child = N(Path("d/f"), "1", None)
    parent = N(Path("d"), {"f": "1"}, "2")
    assert apply_nodes(old, [child, parent]) == new
    try:
        apply_nodes(old, [parent, child])
        raise AssertionError("replacing a non-empty directory must be illegal")
    except Illegal:
        pass
    return 7
