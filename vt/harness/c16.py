"""C16 harnesses: PluginRef order/eq/hash/supports, PluginGroup._add_ep/versions/resolve,
register_in_group, entry-point name codec, UndefVersion marker.

Real code executed symbolically: see ENCODED. Stand-ins: PluginRef.construct(...) gives a real
PluginRef instance whose fields stay symbolic (the validating constructor would realise them).
"""
import vt.shims  # noqa: F401
from vt.part import SEL, reach
from typing import Optional

from metador_core.plugin import interface as I
from metador_core.plugin import util as U
from metador_core.plugin.metaclass import PluginMetaclassMixin, UndefVersion
from metador_core.plugin.types import EPName, from_ep_name, to_ep_name, from_semver_str, to_semver_str
from metador_core.schema.pg import PGSchema
from metador_core.schema.plugins import PluginRef

ENCODED = [
    PluginRef.__eq__, PluginRef.__ge__, PluginRef.__hash__, PluginRef.supports,
    I.PluginGroup._add_ep, I.PluginGroup.versions, I.PluginGroup.resolve, I.PluginGroup.keys,
    I.PluginGroup.__contains__, U.register_in_group, to_ep_name, from_ep_name, to_semver_str,
    from_semver_str, UndefVersion._mark_class, PluginMetaclassMixin.__new__,
]


def mk(g, n, v):
    if SEL.get("real"):  # stage-2 replay: the validating public constructor
        return PluginRef(group=g, name=n, version=v)
    return PluginRef.construct(group=g, name=n, version=v)


def _b(r):
    """A comparison must yield a real truth value (not None / NotImplemented)."""
    if r is None or r is NotImplemented:
        raise _NotBool()
    return bool(r)


class _NotBool(Exception):
    pass


def order(g1: str, n1: str, M1: int, m1: int, p1: int, g2: str, n2: str, M2: int, m2: int, p2: int) -> bool:
    """
    pre: 1 <= len(g1) <= 2 and 1 <= len(g2) <= 2 and 1 <= len(n1) <= 2 and 1 <= len(n2) <= 2
    pre: M1 >= 0 and m1 >= 0 and p1 >= 0 and M2 >= 0 and m2 >= 0 and p2 >= 0
    post: _
    """
    a, b = mk(g1, n1, (M1, m1, p1)), mk(g2, n2, (M2, m2, p2))
    ta, tb = (g1, n1, (M1, m1, p1)), (g2, n2, (M2, m2, p2))
    reach()
    try:
        return (
            _b(a >= b) == (ta >= tb)
            and _b(a > b) == (ta > tb)
            and _b(a <= b) == (ta <= tb)
            and _b(a < b) == (ta < tb)
            and _b(a == b) == (ta == tb)
            and _b(a != b) == (ta != tb)
        )
    except _NotBool:
        return False


def supports(g1: str, n1: str, M1: int, m1: int, p1: int, g2: str, n2: str, M2: int, m2: int, p2: int) -> bool:
    """
    pre: 1 <= len(g1) <= 2 and 1 <= len(g2) <= 2 and 1 <= len(n1) <= 2 and 1 <= len(n2) <= 2
    pre: M1 >= 0 and m1 >= 0 and p1 >= 0 and M2 >= 0 and m2 >= 0 and p2 >= 0
    post: _
    """
    a, b = mk(g1, n1, (M1, m1, p1)), mk(g2, n2, (M2, m2, p2))
    reach()
    exp = g1 == g2 and n1 == n2 and M1 == M2 and m1 >= m2
    r = a.supports(b)
    return r is not None and bool(r) == exp


ALPH = ["", "a", "b"]


def hash_eq(g1: bool, n1: bool, M1: bool, m1: bool, g2: bool, n2: bool, M2: bool, m2: bool) -> bool:
    """
    post: _
    """
    # strings over {a,b}, version components over {0,1}: hashing realises every field,
    # so the domain is enumerated by solver-driven branching (2^8 cases)
    a = mk(ALPH[1 + g1], ALPH[1 + n1], (int(M1), int(m1), 0))
    b = mk(ALPH[1 + g2], ALPH[1 + n2], (int(M2), int(m2), 0))
    reach()
    if a == b:
        return hash(a) == hash(b) and len({a, b}) == 1 and (b in {a: 1})
    return len({a, b}) == 2 and (b not in {a: 1})


class _D:
    name = "pkg"
    version = "1.0.0"


class _EP:
    dist = _D()


NAMES = ["xa.pa", "xa.qa"]


def _fresh_group():
    g = PGSchema.__new__(PGSchema)
    g._ENTRY_POINTS = {}
    g._VERSIONS = {}
    g._LOADED_PLUGINS = {}
    return g


def _spec_versions(regs, name):
    return sorted({v for (nm, v) in regs if nm == name})


def _check_group(g, regs, vb):
    """Oracle on the (by now concrete) registry: listing, membership, resolution for every query."""
    reach()
    for name in NAMES:
        exp = _spec_versions(regs, name)
        got = [r.version for r in g.versions(name)]
        if got != exp:
            return False
        if ((name in g) != bool(exp)):
            return False
        for v in exp:
            if (name, v) not in g:
                return False
        r0 = g.resolve(name)
        if not ((r0 is None and not exp) or (r0 is not None and r0.version == max(exp) and r0.name == name)):
            return False
        for qM in range(vb + 2):
            for qm in range(vb + 2):
                if ((name, (qM, qm, 0)) in g) != ((qM, qm, 0) in exp):
                    return False
                sup = [v for v in exp if v[0] == qM and v[1] >= qm]
                r = g.resolve(name, (qM, qm, 0))
                if not sup:
                    if r is not None:
                        return False
                elif r is None or r.version != max(sup) or r.name != name:
                    return False
                if [x.version for x in g.versions(name, (qM, qm, 0))] != sup:
                    return False
    keys = sorted((r.name, r.version) for r in g.keys())
    return keys == sorted({(nm, v) for nm, v in regs})


def _realise(x, vb):
    for c in range(vb + 1):
        if x == c:
            return c
    raise AssertionError("out of range")


def _regs(M1, m1, M2, m2, M3, m3):
    """Registrations of this partition: SEL['pat'] gives the plugin-name index per registration."""
    pat = SEL.get("pat", "000")
    if SEL.get("vary") == "mp":  # the two symbolic components are (minor, patch) of major 0 (seeding round 5)
        vs = [(0, M1, m1), (0, M2, m2), (0, M3, m3)]
    else:
        vs = [(M1, m1, 0), (M2, m2, 0), (M3, m3, 0)]
    return [(NAMES[int(c)], vs[i]) for i, c in enumerate(pat)]


class _PI:
    def __init__(self, name, version):
        self.name, self.version = name, version


def _do_register(g, nm, v, how):
    if how == "e":
        g._add_ep(to_ep_name(nm, v), _EP())
    else:
        U.register_in_group(g, type("Plg", (), {"Plugin": _PI(nm, v)}), violently=True)


def group(M1: int, m1: int, M2: int, m2: int, M3: int, m3: int) -> bool:
    """
    pre: 0 <= M1 <= 2 and 0 <= m1 <= 2 and 0 <= M2 <= 2 and 0 <= m2 <= 2 and 0 <= M3 <= 2 and 0 <= m3 <= 2
    post: _
    """
    # SEL: pat (names per registration), how (per registration: 'e' entry point via _add_ep,
    # 'r' notebook registration via register_in_group), vb (bound on major/minor)
    vb = SEL.get("vb", 1)
    how = SEL.get("how", "eee")
    if M1 > vb or m1 > vb or M2 > vb or m2 > vb or M3 > vb or m3 > vb:
        return True
    # pydantic validation and dict keys realise the versions anyway; do it up front so that the
    # rest of the path runs on concrete ints (enumeration by solver-driven branching)
    M1, m1, M2, m2, M3, m3 = (_realise(x, vb) for x in (M1, m1, M2, m2, M3, m3))
    regs = _regs(M1, m1, M2, m2, M3, m3)
    if len(regs) < 3 and (M3 != 0 or m3 != 0):
        return True  # unused slot
    if len(regs) < 2 and (M2 != 0 or m2 != 0):
        return True
    g = _fresh_group()
    g._load_plugin = lambda ep_name, plugin: None  # stub: plugin checks are not the subject here
    for (nm, v), h in zip(regs, how):
        _do_register(g, nm, v, h)
    return _check_group(g, regs, vb)


def codec(a: int, b: int, c: int) -> bool:
    """
    pre: 0 <= a and 0 <= b and 0 <= c
    post: _
    """
    vb = SEL.get("vb", 6)
    if a > vb or b > vb or c > vb:
        return True
    name = ["xy", "xa.pp-q", "a1_b.cc-d.e0"][SEL.get("ni", 0)]
    reach()
    ep = to_ep_name(name, (a, b, c))
    return from_ep_name(ep) == (name, (a, b, c)) and to_ep_name(*from_ep_name(ep)) == ep


def semver(a: int, b: int, c: int) -> bool:
    """
    pre: 0 <= a <= 20 and 0 <= b <= 20 and 0 <= c <= 20
    post: _
    """
    reach()
    return from_semver_str(to_semver_str((a, b, c))) == (a, b, c)


_SCHEMAS = {}


def _installed():
    """The plugin group selected by SEL["grp"] (schema / harvester / packer) and its plugin names."""
    g = SEL.get("grp", "schema")
    if g not in _SCHEMAS:
        import metador_core.plugins as PL

        grp = {"schema": "schemas", "harvester": "harvesters", "packer": "packers"}[g]
        grp = getattr(PL, grp)
        _SCHEMAS[g] = (grp, sorted({r.name for r in grp.keys()}))
    return _SCHEMAS[g]


def marker(versioned: bool, idx: int) -> bool:
    """
    pre: 0 <= idx < 4
    post: _
    """
    from crosshair.tracers import NoTracing
    import vt.part as P

    schemas, names = (None, None)
    if P.NATIVE:
        schemas, names = _installed()
    else:
        with NoTracing():
            schemas, names = _installed()
    pick = [names[0], names[len(names) // 3], names[2 * len(names) // 3], names[-1]]
    reach()
    if versioned:
        i = int(idx)
        return _try_subclass(schemas, pick[i], True)
    i = int(idx)
    return not _try_subclass(schemas, pick[i], False)


def _try_subclass(schemas, name, versioned):
    route = SEL.get("route", "get")

    def go():
        ref = schemas.resolve(name)
        if route == "get":
            cls = schemas.get(name, ref.version) if versioned else schemas.get(name)
        elif route == "getitem":  # group[name] / group[(name, version)]
            cls = schemas[(name, ref.version)] if versioned else schemas[name]
        elif route == "fields_origin":  # the class a field was defined in, reached through the handle's Fields
            h = schemas.get(name, ref.version) if versioned else schemas[name]
            fields = sorted(schemas.get(name, ref.version).__fields__.keys())  # (field names from the pydantic model)
            fields = [f for f in fields if not f.startswith("_") and f in dir(h.Fields)] or fields
            if not fields:
                return versioned
            cls = h.Fields[fields[0]].origin
        elif route == "handle_get":  # a version-less handle used as key does not state a version either
            cls = schemas.get(schemas[name], ref.version) if versioned else schemas.get(schemas[name])
        elif route == "handle_getitem":
            cls = schemas[(name, ref.version)] if versioned else schemas[schemas[name]]
        else:  # group[ref] (a reference always states a version) vs. a bare name
            cls = schemas[ref] if versioned else schemas.get(name, None)
        try:
            class Sub(cls):  # noqa
                pass
            return True
        except TypeError:
            return False
    import vt.part as P
    if P.NATIVE:
        return go()
    from crosshair.tracers import NoTracing
    with NoTracing():
        return go()
