"""Container-level harness (C06, C07, C08(d), C09 container level, C20 partial).

The real MetadorContainer / MetadorMeta / TOCLinks / TOCSchemas / TOCPackages stack runs on
the in-memory substrate (plain fakeh5.File driver, or the real IH5Record on the substrate with
patch boundaries and reopen points). A *sequence of actions* is chosen by the solver (symbolic
ints, realised by branching); after realisation everything is concrete and runs natively. After
every action the container is compared with a small reference model and the bookkeeping
invariants are checked on the raw tree.

(DESIGN 9: this replaces the earlier "not applicable" verdict for C06 -- tracing the TOC stack
under CrossHair is not possible, but it does not have to be traced once the choices are concrete.)
"""
from vt.part import SEL, reach, note, untraced
import vt.part as P_

REAL = bool(SEL.get("realfs"))  # stage-2 replay: real h5py files in a temp directory (native only)
if REAL:
    import atexit
    import shutil
    import tempfile

    import vt.npshim  # noqa: F401
    import h5py as fakeh5  # the real library under the name the drivers use

    _TMP = tempfile.mkdtemp(prefix="vt_cont_")
    atexit.register(lambda: shutil.rmtree(_TMP, ignore_errors=True))

    class INST:  # noqa
        @staticmethod
        def reset():
            import os
            for f in os.listdir(_TMP):
                os.unlink(os.path.join(_TMP, f))

    def patch_pydantic_copy():
        pass
else:
    import vt.shims  # noqa: F401
    from vt.shims import patch_pydantic_copy
    import vt.substrate.install as INST
    from vt.substrate import fakeh5
    _TMP = "/c"

import json
from uuid import UUID

from metador_core.container import MetadorContainer
from metador_core.container import utils as M
from metador_core.container.interface import MetadorContainerTOC, MetadorMeta, TOCLinks, TOCPackages, TOCSchemas
from metador_core.container.wrappers import MetadorDataset, MetadorGroup
from metador_core.ih5.record import IH5Record
from metador_core.plugin.types import from_ep_name, to_ep_name
from metador_core.plugins import schemas

patch_pydantic_copy()

ENCODED = [MetadorMeta.__setitem__, MetadorMeta.__delitem__, MetadorMeta.get, MetadorMeta.query, MetadorMeta._get_raw,
           MetadorMeta._set_raw, MetadorMeta._del_raw, MetadorMeta._destroy, MetadorMeta.__init__, MetadorMeta.__contains__,
           TOCLinks.register, TOCLinks.unregister, TOCLinks.update, TOCLinks.find_missing, TOCLinks.repair_missing,
           TOCLinks.fresh_uuid, TOCLinks.__init__, TOCSchemas._register, TOCSchemas._unregister,
           TOCSchemas._update_parents_children, TOCSchemas.versions, TOCSchemas.children, TOCSchemas.__init__,
           TOCPackages._register, TOCPackages._unregister, TOCPackages.__init__, MetadorContainerTOC.query,
           MetadorContainerTOC.__init__, MetadorGroup.__delitem__, MetadorGroup.move, MetadorGroup.copy]

FILE = schemas.get("core.file", (0, 1, 0))
IMG = schemas.get("core.imagefile", (0, 1, 0))
DIR = schemas.get("core.dir", (0, 1, 0))
# harness-registered family (vt/testplugins, on PYTHONPATH): two sibling schemas under one parent
AA = schemas.get("vt.aa", (0, 1, 0))
B1 = schemas.get("vt.bone", (0, 1, 0))
B2 = schemas.get("vt.btwo", (0, 1, 0))
SCHEMA = {"F": ("core.file", FILE), "I": ("core.imagefile", IMG), "D": ("core.dir", DIR),
          "A": ("vt.aa", AA), "B1": ("vt.bone", B1), "B2": ("vt.btwo", B2)}
PARENTS = {"core.file": ["core.file"], "core.imagefile": ["core.file", "core.imagefile"], "core.dir": ["core.dir"],
           "vt.aa": ["vt.aa"], "vt.bone": ["vt.aa", "vt.bone"], "vt.btwo": ["vt.aa", "vt.btwo"]}
QUERY_NAMES = ("core.file", "core.imagefile", "core.dir", "vt.aa", "vt.bone", "vt.btwo")
_cnt = [0]


def mkobj(s):
    _cnt[0] += 1
    n = _cnt[0]
    # every second instance also uses an optional field with a non-JSON-native type (schema.org duration)
    rich = {"duration": "PT%dM" % (n % 50 + 1)} if n % 2 == 0 else {}
    if s == "F":
        return FILE(filename="f%d.txt" % n, encodingFormat="text/plain", contentSize=n, sha256="ab" * 32, **rich)
    if s == "I":
        return IMG(filename="i%d.png" % n, encodingFormat="image/png", contentSize=n, sha256="cd" * 32, width=n, height=2, **rich)
    if s == "A":
        return AA(x=n)
    if s == "B1":
        return B1(x=n, one=n)
    if s == "B2":
        return B2(x=n, two=n)
    return DIR(name="dir%d" % n)


# ---------------------------------------------------------------------------------------
# drivers

class H5Driver:
    name = _TMP + "/cont.h5"

    def create(self):
        return MetadorContainer(fakeh5.File(self.name, "w"))

    def reopen(self, mc):
        mc.close()
        return MetadorContainer(fakeh5.File(self.name, "r+"))

    def boundary(self, mc):
        return mc


class IH5Driver:
    name = _TMP + "/cont"

    def create(self):
        return MetadorContainer(IH5Record(self.name, "w"))

    def reopen(self, mc):
        mc.close()
        return MetadorContainer(IH5Record(self.name, "r+"))

    def boundary(self, mc):
        mc.__wrapped__.commit_patch()
        mc.__wrapped__.create_patch()
        return mc


DRIVERS = {"h5": H5Driver, "ih5": IH5Driver}

# ---------------------------------------------------------------------------------------
# reference model: user tree + attached metadata


class Model:
    def __init__(self):
        self.tree = {}  # path -> "d" | "g"
        self.val = {}
        self.meta = {}  # path -> {schema name: object}

    def below(self, p):
        return [q for q in self.tree if q == p or q.startswith(p + "/")]

    def rm(self, p):
        for q in self.below(p):
            del self.tree[q]
            self.val.pop(q, None)
            self.meta.pop(q, None)

    def cp(self, src, dst, with_meta=True):
        for q in self.below(src):
            n = dst + q[len(src):]
            self.tree[n] = self.tree[q]
            if q in self.val:
                self.val[n] = self.val[q]
            if with_meta and self.meta.get(q):
                self.meta[n] = dict(self.meta[q])


from vt.contactions import ACTIONS  # noqa: E402


def do_action(mc, md, drv, act):
    """Apply action to container and model. Returns (container, problem or None)."""
    kind = act[0]
    if kind == "reopen":
        return drv.reopen(mc), None
    if kind == "boundary":
        return drv.boundary(mc), None
    if kind in ("set", "set2", "keep"):
        p, s = act[1], act[2]
        name, cls = SCHEMA[s]
        if p not in md.tree:
            return mc, None
        handle = mc[p].meta
        obj = mkobj(s)
        exists = name in md.meta.get(p, {})
        try:
            handle[name] = obj
            ok = True
        except ValueError:
            ok = False
        except Exception as e:  # noqa
            return mc, ("attaching a valid instance failed", p, name, type(e).__name__, str(e)[:120])
        if ok == exists:
            return mc, ("set", p, name, "accepted although present" if ok else "refused although absent")
        if ok:
            md.meta.setdefault(p, {})[name] = obj
        if kind == "set2" and ok:  # same handle again: at most one object per schema
            try:
                handle[name] = mkobj(s)
                return mc, ("second object for the same schema accepted through a kept handle", p, name)
            except ValueError:
                pass
        if kind == "keep" and ok:  # the handle that stored the object returns it
            if handle.get(name) != obj or name not in handle or list(handle.keys()) != sorted(md.meta[p]) and \
                    sorted(map(str, handle.keys())) != sorted(md.meta[p]):
                return mc, ("kept handle does not return what it stored", p, name, repr(list(handle.keys())))
        return mc, None
    if kind == "del":
        p, s = act[1], act[2]
        name, cls = SCHEMA[s]
        if p not in md.tree:
            return mc, None
        exists = name in md.meta.get(p, {})
        try:
            del mc[p].meta[name]
            ok = True
        except KeyError:
            ok = False
        if ok != exists:
            return mc, ("del", p, name, ok, exists)
        if ok:
            del md.meta[p][name]
            if not md.meta[p]:
                del md.meta[p]
        return mc, None
    if kind == "set_unknown":
        if act[1] not in md.tree:
            return mc, None
        try:
            mc[act[1]].meta["core.doesnotexist"] = {"a": 1}
            return mc, ("unknown schema accepted",)
        except KeyError:
            return mc, None
    if kind == "rm":
        p = act[1]
        if p not in md.tree:
            return mc, None
        del mc[p]
        md.rm(p)
        return mc, None
    if kind == "mk":
        if act[1] in md.tree:
            return mc, None
        mc[act[1]] = 5
        md.tree[act[1]] = "d"
        md.val[act[1]] = 5
        return mc, None
    if kind == "cp_obj":  # destination given as a group object (root or sub-group) + name=
        src, grp, name = act[1], act[2], act[3]
        dst = name if grp == "/" else grp + "/" + name
        if src not in md.tree or dst in md.tree or (grp != "/" and md.tree.get(grp) != "g"):
            return mc, None
        mc.copy(src, mc if grp == "/" else mc[grp], name=name)
        md.cp(src, dst)
        return mc, None
    if kind == "cp_root":  # copy of the root into a new group below itself
        dst = act[1]
        if dst in md.tree:
            return mc, None
        snap_tree, snap_val, snap_meta = dict(md.tree), dict(md.val), {k: dict(v) for k, v in md.meta.items()}
        mc.copy("/", dst)
        md.tree[dst] = "g"
        for q, k in snap_tree.items():
            md.tree[dst + "/" + q] = k
            if q in snap_val:
                md.val[dst + "/" + q] = snap_val[q]
            if snap_meta.get(q):
                md.meta[dst + "/" + q] = dict(snap_meta[q])
        return mc, None
    if kind == "cp_src_obj":  # source given as a node object
        src, dst = act[1], act[2]
        if src not in md.tree or dst in md.tree:
            return mc, None
        mc.copy(mc[src], dst)
        md.cp(src, dst)
        return mc, None
    if kind == "sub_cp":  # copy through a sub-group handle with a relative target
        grp, src, dst = act[1], act[2], act[3]
        asrc, adst = grp + "/" + src, grp + "/" + dst
        if md.tree.get(grp) != "g" or asrc not in md.tree or adst in md.tree:
            return mc, None
        mc[grp].copy(src, dst)
        md.cp(asrc, adst)
        return mc, None
    if kind == "rm_root":  # the root cannot be deleted: refused, and nothing (in particular no metadata) is lost
        try:
            del mc["/"]
            return mc, ("deleting the root node was accepted",)
        except (KeyError, ValueError):
            return mc, None
    if kind in ("cp", "cp_nometa", "mv"):
        src, dst = act[1], act[2]
        if src not in md.tree or dst in md.tree:
            return mc, None
        par = dst.rsplit("/", 1)[0] if "/" in dst else None
        if par is not None and md.tree.get(par) != "g":
            return mc, None
        if kind == "mv":
            mc.move(src, dst)
            md.cp(src, dst)
            md.rm(src)
        elif kind == "cp":
            mc.copy(src, dst)
            md.cp(src, dst)
        else:
            mc.copy(src, dst, without_meta=True)
            md.cp(src, dst, with_meta=False)
        return mc, None
    raise AssertionError(act)


# ---------------------------------------------------------------------------------------
# oracles

def user_tree(mc):
    out = {}

    def cb(name, node):
        out[name] = "d" if isinstance(node, MetadorDataset) else "g"

    mc.visititems(cb)
    return out


def check_user_view(mc, md):
    """C08(d)/C09: the user-visible tree equals the model; nothing reserved is visible."""
    t = user_tree(mc)
    if t != md.tree:
        return ("user tree differs", t, md.tree)
    for p, k in md.tree.items():
        if k == "d" and mc[p][()] != md.val[p]:
            return ("dataset value differs", p)
        if k == "g":
            kids = sorted(q[len(p) + 1:] for q in md.tree if q.startswith(p + "/") and "/" not in q[len(p) + 1:])
            if sorted(mc[p].keys()) != kids or len(mc[p]) != len(kids):
                return ("listing differs", p, sorted(mc[p].keys()), kids)
            try:
                rv = sorted(reversed(mc[p]))
            except Exception:  # noqa  (refusing reversed() is fine)
                rv = None
            if rv is not None and rv != kids:
                return ("reversed() listing differs", p, rv, kids)
    # membership like on a plain tree: nothing exists below a dataset, the root exists, absent names are absent
    for p, k in md.tree.items():
        probes = [(p, True), (p + "/zz", False)] + ([("/" + p, True)] if True else [])
        for q, want in probes:
            try:
                got = q in mc
            except Exception as e:  # noqa
                return ("membership test raised", q, type(e).__name__)
            if got != want:
                return ("membership differs from the plain tree", q, got, want)
    try:
        if ("/" in mc) is not True or ("zz/q" in mc) is not False:
            return ("membership of the root / of an absent nested path differs from the plain tree",)
    except Exception as e:  # noqa
        return ("membership test raised", "/", type(e).__name__)
    top = sorted(q for q in md.tree if "/" not in q)
    if sorted(mc.keys()) != top:
        return ("root listing differs", sorted(mc.keys()), top)
    try:
        rv = sorted(reversed(mc))
    except Exception:  # noqa
        rv = None
    if rv is not None and rv != top:
        return ("reversed() root listing differs", rv, top)
    return None


def check_meta(mc, md):
    """C07: what was stored comes back; parent views; exact queries."""
    for p in md.tree:
        m = mc[p].meta
        have = md.meta.get(p, {})
        if sorted(m.keys()) != sorted(have):
            return ("attached schemas differ", p, sorted(map(str, m.keys())), sorted(have))
        for name, obj in have.items():
            got = m.get(name)
            if got != obj:
                return ("stored object does not come back equal", p, name)
            if name not in m or (name, (0, 1, 0)) not in m or (name, (0, 2, 0)) not in m or (name, (1, 0, 0)) in m:
                return ("membership/version compatibility wrong", p, name)
            if m.get(name, (0, 0, 0)) is not None and False:
                return ("x",)
        for name in QUERY_NAMES:
            expect = [s for s in have if name in PARENTS[s]]
            got = m.get(name)
            if not expect:
                if got is not None or name in m:
                    return ("object reported for a schema that is not attached", p, name)
            else:
                if got is None or name not in m:
                    return ("parent-schema view missing", p, name)
                src = have[name] if name in have else have[expect[0]]
                cls = schemas.get(name, (0, 1, 0))
                if not isinstance(got, cls):
                    return ("parent view has the wrong class", p, name, type(got).__name__)
                if name == "core.file" and got.filename != src.filename:
                    return ("parent view shows different data", p, name)
                if name == "vt.aa" and got.x != src.x:
                    return ("parent view shows different data", p, name)
        if list(m.query("core.doesnotexist")) or "core.doesnotexist" in m:
            return ("unknown schema reported", p)
    # container / group level queries
    for name in QUERY_NAMES:
        for start in [None] + [p for p in md.tree]:
            got = sorted(n.name for n in (mc.metador.query(name) if start is None else mc[start].metador.query(name)))
            want = sorted("/" + p for p in md.tree
                          if (start is None or p == start or p.startswith(start + "/"))
                          and any(name in PARENTS[s] for s in md.meta.get(p, {})))
            if got != want:
                return ("query result differs", name, start, got, want)
            got_v = sorted(n.name for n in mc.metador.query(name, (1, 0, 0)))
            if got_v:
                return ("incompatible major version matched", name)
    return None


def raw_nodes(raw):
    out = {}

    def cb(name, node):
        out["/" + name] = node

    raw.visititems(cb)
    return out


def check_toc(mc, md):
    """C06 (+C20 bookkeeping): TOC and attached objects are in exact one-to-one sync."""
    raw = mc.__wrapped__
    nodes = raw_nodes(raw)
    isgrp = lambda n: hasattr(n, "keys")  # noqa
    objs, links = {}, {}
    for p, n in nodes.items():
        segs = p.split("/")
        if len(segs) >= 2 and M.is_meta_base_path("/".join(segs[:-1])) and not isgrp(n):
            ep, uu = segs[-1].split("=")
            if uu in objs:
                return ("uuid used by two metadata objects", uu)
            objs[uu] = (p, ep)
        if p.startswith(M.METADOR_LINKS_PATH + "/") and not isgrp(n):
            ep, uu = segs[-2], segs[-1]
            links[uu] = (n[()].decode("utf-8"), ep)
    if set(objs) != set(links):
        return ("links and objects differ", sorted(set(objs) ^ set(links)))
    for uu, (target, ep) in links.items():
        if objs[uu] != (target, ep):
            return ("link does not point at its object", uu, target, objs[uu])
    # objects are exactly the ones the model knows about
    want = sorted((("/" + M.to_meta_base_path(p, md.tree[p] == "d").lstrip("/")), to_ep_name(s, (0, 1, 0)))
                  for p in md.tree for s in md.meta.get(p, {}))
    have = sorted((o[0].rsplit("/", 1)[0], o[1]) for o in objs.values())
    if want != have:
        return ("stored objects differ from the model", have, want)
    used = sorted({ep for _, ep in objs.values()})
    sch = sorted(nodes[M.METADOR_SCHEMAS_PATH].keys()) if M.METADOR_SCHEMAS_PATH in nodes else []
    if sch != used:
        return ("schema records differ from schemas in use", sch, used)
    if (M.METADOR_PACKAGES_PATH in nodes) != bool(used):
        return ("package records present/absent wrongly", bool(used))
    if M.METADOR_PACKAGES_PATH in nodes:  # package records exactly for the providers of the schemas in use
        want_pk = sorted({schemas.provider(schemas.PluginRef(name=from_ep_name(ep)[0], version=from_ep_name(ep)[1])).name for ep in used})
        have_pk = sorted(k.split("__")[0] for k in nodes[M.METADOR_PACKAGES_PATH].keys())
        if want_pk != have_pk:
            return ("package records differ from the providers of the schemas in use", have_pk, want_pk)
    # every bookkeeping entity is where it belongs: the one TOC at the root, metadata directories next to an
    # existing user node (no stale copies anywhere else in the file)
    for p in nodes:
        if not M.is_internal_path(p) or p == M.METADOR_TOC_PATH or p.startswith(M.METADOR_TOC_PATH + "/"):
            continue
        segs = p.split("/")
        i = next(j for j, x in enumerate(segs) if x.startswith("metador_"))
        base = "/".join(segs[:i + 1])
        owner = M.to_data_node_path(base).lstrip("/") if M.is_meta_base_path(base) else None
        if owner is None or (owner != "" and owner not in md.tree):
            return ("stray bookkeeping entity", p)
    for p, n in nodes.items():  # no empty bookkeeping groups
        if isgrp(n) and M.is_internal_path(p) and p != M.METADOR_TOC_PATH and len(n.keys()) == 0:
            return ("empty bookkeeping group left behind", p)
    # in-memory index == what is on disk
    mem = {str(k): v for k, v in mc.metador._links._toc_path.items()}
    disk = {uu: M.METADOR_LINKS_PATH + "/" + ep + "/" + uu for uu, (_, ep) in links.items()}
    if mem != disk:
        return ("in-memory TOC index differs from disk", mem, disk)
    if sorted(to_ep_name(r.name, r.version) for r in mc.metador.schemas.keys()) != used:
        return ("in-memory schema set differs", used)
    # the incrementally maintained schema index (parents / children / used packages) == one rebuilt from disk
    fresh = MetadorContainerTOC(mc)
    for attr in ("_parents", "_children", "_used"):
        a, b = getattr(mc.metador._schemas, attr, None), getattr(fresh._schemas, attr, None)
        if a is None and b is None:
            a, b = getattr(mc.metador._packages, attr, None), getattr(fresh._packages, attr, None)
        if attr != "_parents":  # (an empty set and a missing key mean the same and are not observable)
            a, b = {k: v for k, v in a.items() if v}, {k: v for k, v in b.items() if v}
        if a != b:
            return ("in-memory schema index differs from the one rebuilt from disk", attr, repr(a)[:200], repr(b)[:200])
    # C20: the container describes the schemas it uses
    for ep in used:
        name, ver = from_ep_name(ep)
        ref = schemas.PluginRef(name=name, version=ver)
        cls = schemas.get(name, ver)
        if mc.metador.schemas[ref] != json.loads(cls.schema_json()):
            return ("embedded JSON schema differs from the plugin's", ep)
        if SEL.get("c20") and mc.metador.schemas.get(ref) != mc.metador.schemas[ref]:
            return ("schemas.get(ref) does not report the embedded JSON schema", ep, repr(mc.metador.schemas.get(ref))[:40])
        if mc.metador.schemas.parent_path(name, ver) != schemas.parent_path(name, ver):
            return ("embedded parent chain differs", ep)
        prov = mc.metador.schemas.provider(ref)
        if prov != schemas.provider(ref):
            return ("embedded provider differs", ep)
        if ref not in prov.plugins.get("schema", []):
            return ("embedded package does not list the schema it provides", ep)
    if SEL.get("c20"):
        unused = schemas.PluginRef(name="core.bib", version=(0, 1, 0))
        if unused not in mc.metador.schemas.keys():
            try:
                if mc.metador.schemas.get(unused) is not None:
                    return ("schemas.get() reports a schema that is not stored",)
            except Exception as e:  # noqa
                return ("schemas.get() of a schema that is not stored fails instead of returning None", type(e).__name__)
    # every stored object validates against the embedded JSON Schema of its schema
    import jsonschema

    for uu, (path, ep) in objs.items():
        name, ver = from_ep_name(ep)
        emb = mc.metador.schemas[schemas.PluginRef(name=name, version=ver)]
        raw_obj = nodes[path][()]
        key = (json.dumps(emb, sort_keys=True), bytes(raw_obj))
        if key in _VALID:  # (validator construction checks the schema against its metaschema: ~0.25 s)
            continue
        vkey = key[0]
        if vkey not in _VALIDATORS:
            cls_ = jsonschema.validators.validator_for(emb)
            cls_.check_schema(emb)
            _VALIDATORS[vkey] = cls_(emb)
        err = next(iter(_VALIDATORS[vkey].iter_errors(json.loads(raw_obj.decode("utf-8")))), None)
        if err is not None:
            return ("stored object does not validate against the embedded schema", path, str(err)[:200])
        _VALID.add(key)
    return None


_VALIDATORS, _VALID = {}, set()


def check_all(mc, md):
    for f in (check_user_view, check_meta, check_toc):
        r = f(mc, md)
        if r is not None:
            return r
    return None


def seq(a1: int, a2: int, a3: int, a4: int) -> bool:
    """
    pre: 0 <= a1 < len(ACTIONS) and 0 <= a2 < len(ACTIONS) and 0 <= a3 < len(ACTIONS) and 0 <= a4 < len(ACTIONS)
    post: _
    """
    k = SEL.get("k", 3)
    acts = []
    if "first" in SEL:
        if a1 != SEL["first"]:
            return True
        a1 = SEL["first"]
    for a in (a1, a2, a3, a4)[:k]:
        for c in range(len(ACTIONS)):
            if a == c:
                acts.append(c)
                break
    reach()
    P_.sample({"driver": SEL.get("drv", "h5"), "init": SEL.get("init", 0), "actions": [list(ACTIONS[a]) for a in acts]})
    return P_.native_call("vt.harness.cont", "run_seq_idx", SEL.get("drv", "h5"), acts, SEL.get("init", 0))


def run_seq_idx(drvname, idx, init=0):
    return run_seq(drvname, [ACTIONS[a] for a in idx], init)


INIT_META = [("set", "d", "F"), ("set", "g", "D"), ("set", "g/e", "I"), ("set", "g/e", "F")]


def run_seq(drvname, actions, init=0):
    """init=1: the sequence starts from a container that already carries metadata of three schemas
    (incl. a parent/child pair on one node), written in an earlier session (closed and reopened)."""
    INST.reset()
    _cnt[0] = 0
    drv = DRIVERS[drvname]()
    mc = drv.create()
    md = Model()
    mc["d"] = 1
    mc.create_group("g")
    mc["g/e"] = 2
    md.tree.update({"d": "d", "g": "g", "g/e": "d"})
    md.val.update({"d": 1, "g/e": 2})
    if init == 2:  # mirrored names: g/g/e2 exists while g/e2 is free (absolute vs relative resolution in sub-groups)
        mc.create_group("g/g")
        mc["g/g/e2"] = 3
        md.tree.update({"g/g": "g", "g/g/e2": "d"})
        md.val["g/g/e2"] = 3
    if init:
        for act in INIT_META:
            mc, prob = do_action(mc, md, drv, act)
            if prob is not None:
                note(("initial state", act, prob))
                return False
        mc = drv.reopen(mc)
    r = check_all(mc, md)
    if r is not None:
        note(("initial state", r))
        return False
    for i, act in enumerate(actions):
        try:
            mc, prob = do_action(mc, md, drv, act)
        except Exception as e:  # noqa
            import traceback
            note(("action crashed", actions[:i + 1], type(e).__name__, str(e)[:200], traceback.format_exc()[-500:]))
            return False
        if prob is None:
            prob = check_all(mc, md)
        if prob is not None:
            note(("after", actions[:i + 1], prob))
            return False
    if SEL.get("c09"):
        # file-level members the container declares as supported work on every driver
        for member in sorted(MetadorContainer._self_SUPPORTED - {"close"}):
            try:
                v = getattr(mc, member)
                if callable(v):
                    v()
            except Exception as e:  # noqa
                note(("file-level member declared as supported fails on this driver", member, drvname, type(e).__name__, str(e)[:80]))
                return False
    # closing and reopening: the index rebuilt from disk equals the incrementally maintained one
    mc = drv.reopen(mc)
    prob = check_all(mc, md)
    mc.close()
    if prob is not None:
        note(("after reopen", actions, prob))
        return False
    return True
