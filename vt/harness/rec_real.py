"""Real-file-system variant of the record harnesses (stage-2 replay; set SEL["realfs"] first)."""
import vt.part as P_

assert P_.SEL.get("realfs"), "set SEL['realfs'] before importing"
P_.NATIVE = True
import vt.harness.rec as R  # noqa: E402


def run(func, kwargs):
    try:
        ok = getattr(R, func)(**kwargs)
    except Exception as e:  # noqa
        import traceback
        traceback.print_exc()
        print("MISMATCH:", type(e).__name__, str(e)[:300])
        return False
    for n in P_.NOTES:
        print("MISMATCH:", n)
    return bool(ok)
