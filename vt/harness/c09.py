"""C09: protocol coverage bookkeeping -- which members of the raw driver protocols
(util/types.py) the (W)/(R) harness alphabet exercises. A protocol member that is neither
exercised nor on the explicit not-exercised list makes the check fail, so that a protocol
extension without harness support is noticed."""
import vt.shims  # noqa: F401
from vt.part import reach
import vt.substrate.install  # noqa: F401
import inspect

from metador_core.util import types as T

ENCODED = [T.H5NodeLike, T.H5DatasetLike, T.H5GroupLike, T.H5FileLike]

EXERCISED = {
    # by (R): view/lookups
    "name", "attrs", "parent", "file", "__getitem__", "__contains__", "keys", "values", "items", "__iter__", "__len__", "get",
    "visititems", "visit", "ndim",
    # by (W)
    "__setitem__", "__delitem__", "create_group", "create_dataset", "require_group", "require_dataset", "copy", "move",
}
# members of the protocols that no harness operation drives (stated as outside the claim)
NOT_EXERCISED = {"mode", "close", "__enter__", "__exit__", "__bool__"}


def members():
    out = set()
    for proto in (T.H5NodeLike, T.H5DatasetLike, T.H5GroupLike, T.H5FileLike):
        for name, val in vars(proto).items():
            if name.startswith("_") and not (name.startswith("__") and name.endswith("__")):
                continue
            if name in ("__module__", "__doc__", "__dict__", "__weakref__", "__annotations__", "__parameters__",
                        "__abstractmethods__", "__subclasshook__", "__init__", "__protocol_attrs__", "__non_callable_proto_members__",
                        "__orig_bases__", "__slots__", "__class_getitem__", "__init_subclass__"):
                continue
            if callable(val) or isinstance(val, property):
                out.add(name)
        for name in getattr(proto, "__annotations__", {}):
            if not name.startswith("_"):
                out.add(name)
    return out


def protocol_covered(x: bool) -> bool:
    """
    post: _
    """
    reach()
    m = members()
    unknown = m - EXERCISED - NOT_EXERCISED
    return not unknown and len(m) > 10
