"""C04 harness: only coherent, untampered file sets open as a record.

The real IH5Record._open / _check_ublock / ih5_uuid (and the IH5MFRecord overrides) run on
stand-in user blocks whose fields are symbolic (UUIDs are small ints, compared only with ==),
with the hash oracle replaced by a per-file verdict (stored hash verifies or not):
byte-level tamper detection is therefore an assumption (SHA-256), not a result.
"""
import vt.shims  # noqa: F401
import vt.substrate.install as INST
from vt.part import SEL, reach, note
import vt.part as P_
from vt.substrate import fakeh5
from vt.substrate.fakeh5 import FakePath
from typing import Optional

import metador_core.ih5.manifest as MF
import metador_core.ih5.record as REC
from metador_core.ih5.manifest import IH5MFRecord, IH5UBExtManifest
from metador_core.ih5.record import IH5Record

if not P_.NATIVE:
    INST.make_substrate_native()

ENCODED = [IH5Record._open, IH5Record._check_ublock, IH5Record.ih5_uuid.fget, IH5MFRecord._open,
           IH5MFRecord._check_ublock, IH5UBExtManifest.get]

GOOD, BAD = "sha256:00", "sha256:ff"


class UB:
    """Stand-in for IH5UserBlock (same attribute names)."""

    def __init__(self, rec, idx, pu, prev, hstate, ext=None):
        self.record_uuid, self.patch_index, self.patch_uuid, self.prev_patch = rec, idx, pu, prev
        self.hdf5_hashsum = None if hstate == 0 else GOOD
        self.ub_exts = {} if ext is None else {IH5UBExtManifest.ext_name(): ext}

    def copy(self, **kw):
        return self


BLOCKS, VERDICT = {}, {}
REC.IH5UserBlock.load = classmethod(lambda cls, path: BLOCKS[str(path)])


def _hashsum_file(filename, skip_bytes=0):
    return VERDICT[str(filename)]


REC.hashsum_file = _hashsum_file
MF.hashsum_file = _hashsum_file
MF.IH5Manifest.parse_file = classmethod(lambda cls, path: "MANIFEST")


def coherent(blocks):
    """The property's predicate, written independently. blocks: list of (UB-like tuple) in
    the order given; tuple = (rec, idx, uuid, prev, hstate)."""
    order = sorted(range(len(blocks)), key=lambda i: blocks[i][1])  # stable
    bl = [blocks[i] for i in order]
    n = len(bl)
    if bl[0][3] is not None:
        return False  # missing base: first container links to a predecessor
    for i, (rec, idx, uu, prev, hs) in enumerate(bl):
        if rec != bl[0][0]:
            return False  # foreign container
        if hs == 2:
            return False  # stored hash does not verify (tampered payload)
        if hs == 0 and i < n - 1:
            return False  # only the newest container may be uncommitted
        if i > 0:
            if not idx > bl[i - 1][1]:
                return False  # duplicated / unordered index
            if prev is None or prev != bl[i - 1][2]:
                return False  # gap, fork or wrong predecessor
    return len({b[2] for b in bl}) == n  # duplicated patch uuid


def _open(C, blocks, exts=None, manifest=None):
    INST.reset()
    BLOCKS.clear()
    VERDICT.clear()
    paths = []
    for k, (rec, idx, uu, prev, hs) in enumerate(blocks):
        name = "/d/f%d.ih5" % k
        fakeh5.File(name, "w").close()
        BLOCKS[name] = UB(rec, idx, uu, prev, hs, ext=(exts or {}).get(k))
        VERDICT[name] = BAD if hs == 2 else GOOD
        paths.append(FakePath(name))
    if manifest is not None:
        mname, exists, ok = manifest
        if exists:
            fakeh5.FS[mname] = bytearray(b"{}")
        VERDICT[mname] = GOOD if ok else BAD
    try:
        r = C._open(paths)
        return "ok"
    except ValueError:
        return "refused"
    except AssertionError:
        return "assert"


def chain(r1: int, r2: int, r3: int, i0: int, i1: int, i2: int, i3: int, u0: int, u1: int, u2: int, u3: int,
          p0: Optional[int], p1: Optional[int], p2: Optional[int], p3: Optional[int]) -> bool:
    """
    pre: 0 <= r1 <= 1 and 0 <= r2 <= 1 and 0 <= r3 <= 1
    pre: 0 <= i0 <= 12 and 0 <= i1 <= 12 and 0 <= i2 <= 12 and 0 <= i3 <= 12
    pre: 0 <= u0 <= 4 and 0 <= u1 <= 4 and 0 <= u2 <= 4 and 0 <= u3 <= 4
    pre: (p0 is None or 0 <= p0 <= 4) and (p1 is None or 0 <= p1 <= 4) and (p2 is None or 0 <= p2 <= 4) and (p3 is None or 0 <= p3 <= 4)
    post: _
    """
    # SEL: n (number of files handed to _open), h (per file: 0 no hash, 1 hash verifies, 2 hash does not verify)
    n = SEL.get("n", 3)
    hs = list(SEL.get("h", [1] * n)) + [0] * 4
    blocks = [(0, i0, u0, p0, hs[0]), (r1, i1, u1, p1, hs[1]), (r2, i2, u2, p2, hs[2]), (r3, i3, u3, p3, hs[3])][:n]
    if n < 4 and not (r3 == 0 and i3 == 0 and u3 == 0 and p3 is None):
        return True
    if n < 3 and not (r2 == 0 and i2 == 0 and u2 == 0 and p2 is None):
        return True
    if n < 2 and not (r1 == 0 and i1 == 0 and u1 == 0 and p1 is None):
        return True
    for x in (u0, u1, u2, u3):  # uuid stand-ins are hashed (set of patch uuids): small domain
        if x > n:
            return True
    # patch indices stay symbolic in 0..12 (two-digit values included: ordering must be numeric)
    for x in (p0, p1, p2, p3):
        if x is not None and x > n:
            return True
    reach()
    got = _open(IH5Record, blocks)
    exp = coherent(blocks)
    return (got == "ok") == exp and got != "assert"


def manifest(hext: bool, mexists: bool, mok: bool, stub0: bool, stub1: bool, ext0: bool, h1: int, p1ok: bool) -> bool:
    """
    pre: 0 <= h1 <= 2
    post: _
    """
    # two-container chain through IH5MFRecord: manifest of the newest container must exist and verify;
    # a stub is only allowed as base
    n = SEL.get("n", 2)
    blocks = [(0, 0, 1, None, 1), (0, 1, 2, 1 if p1ok else 3, h1)][:n]
    newest = n - 1
    ext = {"is_stub_container": False, "manifest_uuid": "00000000-0000-0000-0000-000000000001", "manifest_hashsum": GOOD}
    exts = {}
    if ext0 and n == 2:
        exts[0] = dict(ext, is_stub_container=stub0)
    if hext:
        exts[newest] = dict(ext, is_stub_container=(stub1 if n == 2 else stub0))
    # The manifest that counts is the one of the newest *committed* container (an uncommitted patch on top has
    # none yet: extension and hashsum are written in one user-block write, so "uncommitted with extension" is
    # not a reachable state). Manifest histories under an uncommitted patch: vt/mfhist.py (public API).
    uncommitted_top = n == 2 and h1 == 0
    if uncommitted_top and hext:
        return True
    reach()
    got = _open(IH5MFRecord, blocks, exts=exts, manifest=("/d/f%d.ih5mf.json" % newest, mexists, mok))
    exp = coherent(blocks)
    if uncommitted_top:
        if ext0:
            exp = False  # (the sidecar of container 0 does not exist in this scenario)
    elif hext and not (mexists and mok):
        exp = False
    if n == 2 and hext and stub1:
        return got in ("refused", "assert")  # a stub on top of something else is refused
    return (got == "ok") == exp and got != "assert"
