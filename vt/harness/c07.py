"""C07 kernel harness: exact query selection with *symbolic schema versions*.

Real MetadorMeta.query/__contains__/_get_raw, TOCSchemas.versions/children/
_update_parents_children and PluginRef.supports run on a stand-in node whose stored objects
carry schema references with symbolic versions (names: the installed parent/child pair
core.file <- core.imagefile). Reference: brute-force specification of the property.
(Refs are dict/set keys, so the version components are realised by hashing: enumerated.)
"""
import vt.shims  # noqa: F401
from vt.part import SEL, reach, note
import types
import uuid

from metador_core.container.interface import MetadorMeta, StoredMetadata, TOCSchemas
from metador_core.plugins import schemas
from metador_core.schema.plugins import PluginRef

ENCODED = [MetadorMeta.query, MetadorMeta.__contains__, MetadorMeta._get_raw, TOCSchemas.versions, TOCSchemas.children,
           TOCSchemas._update_parents_children, PluginRef.supports]

FAM = ["core.file", "core.imagefile", "core.nonexistent"]


def ref(name, ver):
    return schemas.PluginRef.construct(group="schema", name=name, version=ver)


def mk_meta(stored, img_parent_ver):
    """stored: list of (name, version). The parent chain of a stored imagefile names core.file
    at `img_parent_ver` (what the providing package declared)."""
    ts = TOCSchemas.__new__(TOCSchemas)
    ts._schemas, ts._parents, ts._children = set(), {}, {}
    for (n, v) in stored:
        r = ref(n, v)
        parents = [r] if n == "core.file" else [ref("core.file", img_parent_ver), r]
        ts._schemas.add(r)
        ts._update_parents_children(r, parents)
    mm = MetadorMeta.__new__(MetadorMeta)
    mm._objs = {n: StoredMetadata(uuid=uuid.UUID(int=i + 1), schema=ref(n, v), node=None) for i, (n, v) in enumerate(stored)}
    mm._mc = types.SimpleNamespace(metador=types.SimpleNamespace(schemas=ts))
    mm._node = types.SimpleNamespace(_guard_acl=lambda *a, **k: None)
    return mm


def query(fM: int, fm: int, iM: int, im: int, pM: int, pm: int, qM: int, qm: int) -> bool:
    """
    pre: 0 <= fM <= 2 and 0 <= fm <= 2 and 0 <= iM <= 2 and 0 <= im <= 2 and 0 <= pM <= 2 and 0 <= pm <= 2
    pre: 0 <= qM <= 2 and 0 <= qm <= 2
    post: _
    """
    vb = SEL.get("vb", 1)

    def rl(x):  # refs are hashed (dict/set keys): realise the components up front
        for c in range(vb + 1):
            if x == c:
                return c
        return None
    vals = []
    for x in (fM, fm, iM, im, pM, pm, qM, qm):
        c = rl(x)
        if c is None:
            return True  # outside this partition's version range
        vals.append(c)
    fM, fm, iM, im, pM, pm, qM, qm = vals
    qn = SEL.get("qn", 0)
    has_file, has_img, qv = bool(SEL.get("hf", 1)), bool(SEL.get("hi", 1)), bool(SEL.get("qv", 1))
    stored = []
    if has_file:
        stored.append(("core.file", (fM, fm, 0)))
    if has_img:
        stored.append(("core.imagefile", (iM, im, 0)))
    mm = mk_meta(stored, (pM, pm, 0))
    name = FAM[qn]
    ver = (qM, qm, 0) if qv else None
    reach()
    res = list(mm.query(name, ver))
    got = {(r.name, r.version) for r in res}

    def compat(v):  # stored version v is readable at the requested version
        return ver is None or (v[0] == ver[0] and v[1] <= ver[1])

    exp = set()
    for (n, v) in stored:
        if n == name and compat(v):
            exp.add((n, v))
    if name == "core.file" and has_img and compat((pM, pm, 0)):
        exp.add(("core.imagefile", (iM, im, 0)))  # child instance, valid as the parent version it declares
    if got != exp:
        note(("query", name, ver, sorted(got), sorted(exp)))
        return False
    if len(res) != len(got):
        return False  # nothing listed twice
    exact = [(n, v) for (n, v) in stored if n == name and compat(v)]
    if exact and (res[0].name, res[0].version) != exact[0]:
        return False  # exact schema first
    if ((name, ver) in mm) != bool(exp):
        return False
    return True
