"""Record-level harnesses (C02, C03, C05, C11): the real IH5Record / IH5MFRecord life cycle
(__init__ mode dispatch, _open, _create, create_patch, commit_patch, discard_patch, close,
merge_files, find_files, list_records, user block load/save) over the in-memory substrate.

The file system is the registry fakeh5.FS (container stores with 1024-byte user block and an
abstract payload whose bytes change with every HDF5-level write; plain byte files for
manifests). Everything in metador_core runs unmodified; see vt.substrate.install for the
rebinding of h5py / open / Path / uuid1.

With SEL["realfs"] the same scenarios run on real h5py files in a temp directory (stage-2
replay of counterexamples, native only): backend `B` hides the difference.
"""
import vt.part as P_
from vt.part import SEL, reach, note, untraced

REAL = bool(SEL.get("realfs"))

if REAL:
    import atexit
    import shutil
    import tempfile
    from pathlib import Path as _RealPath

    import vt.npshim  # noqa: F401

    class B:  # real file system backend
        root = tempfile.mkdtemp(prefix="vt_rec_")
        Store = ()

        @staticmethod
        def reset():
            for f in _RealPath(B.root).iterdir():
                f.unlink()

        @staticmethod
        def P(name):
            return _RealPath(name)

        @staticmethod
        def names():
            return sorted(str(f) for f in _RealPath(B.root).iterdir())

        @staticmethod
        def snap():
            return {str(f): f.read_bytes() for f in _RealPath(B.root).iterdir()}

        @staticmethod
        def head(name):
            with open(name, "rb") as f:
                return f.read(1024)

        @staticmethod
        def is_container(name):
            return name.endswith(".ih5")

        @staticmethod
        def put_raw(name, data):
            _RealPath(name).write_bytes(data)

        @staticmethod
        def put_head(name, data):
            with open(name, "r+b") as f:
                f.write(data)

    atexit.register(lambda: shutil.rmtree(B.root, ignore_errors=True))
else:
    import vt.shims  # noqa: F401
    from vt.shims import patch_pydantic_copy
    import vt.substrate.install as INST
    from vt.substrate import fakeh5
    from vt.substrate.fakeh5 import FakePath

    class B:  # in-memory substrate backend
        root = "/d"

        @staticmethod
        def reset():
            INST.reset()

        @staticmethod
        def P(name):
            return FakePath(name)

        @staticmethod
        def names():
            return sorted(fakeh5.FS)

        @staticmethod
        def snap():
            return fakeh5.snapshot()

        @staticmethod
        def head(name):
            st = fakeh5.FS[name]
            return bytes(st.ub) if isinstance(st, fakeh5._Store) else bytes(st)[:1024]

        @staticmethod
        def is_container(name):
            return isinstance(fakeh5.FS.get(name), fakeh5._Store)

        @staticmethod
        def put_raw(name, data):
            fakeh5.FS[name] = bytearray(data)

        @staticmethod
        def put_head(name, data):
            fakeh5.FS[name].ub[:len(data)] = data

    patch_pydantic_copy()
    if not P_.NATIVE:
        INST.make_substrate_native()

import metador_core.ih5.record as REC
from metador_core.ih5.manifest import IH5MFRecord
from metador_core.ih5.overlay import IH5Dataset
from metador_core.ih5.record import IH5Record, IH5UserBlock

ENCODED = [
    IH5Record.__init__, IH5Record._open, IH5Record._create, IH5Record._new_container, IH5Record._check_ublock,
    IH5Record.create_patch, IH5Record.commit_patch, IH5Record.discard_patch, IH5Record._delete_latest_container,
    IH5Record.close, IH5Record.merge_files, IH5Record.find_files, IH5Record.list_records, IH5Record.delete_files,
    IH5Record._next_patch_filepath, IH5Record._infer_name, IH5Record._base_filename, IH5Record._is_valid_record_name,
    IH5UserBlock.create, IH5UserBlock.save, IH5UserBlock.load, IH5UserBlock._read_head_raw, REC.hashsum_file,
    IH5MFRecord._open, IH5MFRecord.commit_patch, IH5MFRecord._check_ublock, IH5MFRecord.merge_files,
    IH5MFRecord._fixes_after_merge, IH5MFRecord._fresh_manifest,
]

REC_PATH = B.root + "/rec"
CLS = {"ih5": IH5Record, "mf": IH5MFRecord}


def cls():
    return CLS[SEL.get("cls", "ih5")]


def view(r):
    out = {"/": ("g", None, dict(r.attrs.items()))}

    def cb(name, node):
        if isinstance(node, IH5Dataset):
            out["/" + name] = ("d", node[()], dict(node.attrs.items()))
        else:
            out["/" + name] = ("g", None, dict(node.attrs.items()))

    r.visititems(cb)
    return out


def snap():
    return B.snap()


def record_files(name="rec"):
    pre = B.root + "/" + name
    return sorted(k for k in B.names() if k == pre + ".ih5" or (k.startswith(pre + ".p") and k.endswith(".ih5"))
                  or k.startswith(pre + ".") and k.endswith("mf.json"))


# on-disk situations (built natively through the real API)
ABSENT, UNCOMMITTED_BASE, COMMITTED_BASE, PATCHED, UNCOMMITTED_PATCH, PATCHED_TWICE = range(6)
SIT_NAMES = ["absent", "uncommitted base", "committed base", "patched", "uncommitted patch", "patched twice"]


def setup(sit, C=None):
    """Returns (expected view, expected committed view) for the situation."""
    C = C or cls()
    B.reset()
    if sit == ABSENT:
        return None, None
    r = C(REC_PATH, "w")
    r["a/x"] = 1
    r["a"].attrs["k"] = 2
    v0 = view(r)
    if sit == UNCOMMITTED_BASE:
        r.close(commit=False)
        return v0, None
    r.commit_patch()
    if sit == COMMITTED_BASE:
        r.close()
        return v0, v0
    r.create_patch()
    del r["a/x"]
    r["b"] = 3
    v1 = view(r)
    if sit == UNCOMMITTED_PATCH:
        r.close(commit=False)
        return v1, v0
    r.commit_patch()
    if sit == PATCHED:
        r.close()
        return v1, v1
    r.create_patch()
    r["a/y"] = 4
    del r["a"].attrs["k"]
    v2 = view(r)
    r.commit_patch()
    r.close()
    return v2, v2


VALID_MODES = ("r", "r+", "a", "w", "w-", "x")


def _writes_refused(r0):
    # the record object itself and every record handle reachable from it through its nodes (`node.file`)
    handles = [r0]
    for p in ("/", "a", "b"):
        try:
            n = r0[p]
        except (ValueError, KeyError):
            continue
        handles.append(n.file)
    for r in handles:
        if r.mode != "r":
            note(("handle of a read-only record reports mode", r.mode))
            return False
        for f in (lambda: r.__setitem__("zz", 1), lambda: r.create_group("zg"), lambda: r.__delitem__("a"),
                  lambda: r.attrs.__setitem__("zk", 1), lambda: r.create_patch(), lambda: r.commit_patch(),
                  lambda: r.discard_patch()):
            try:
                f()
                note(("write accepted on a read-only record", "via node.file" if r is not r0 else "directly"))
                return False
            except (ValueError, KeyError):
                pass
    return True


def modes(mode: str, sit: int) -> bool:
    """
    pre: len(mode) <= 2 and 0 <= sit <= 5
    post: _
    """
    C = cls()
    if "sit" in SEL:
        if sit != 0:
            return True
        sit = SEL["sit"]
    else:
        for c in range(6):
            if sit == c:
                sit = c
                break
    with untraced():
        vnow, vcommitted = setup(sit, C)
        before = snap()
        files_before = record_files()
        uncommitted = sit in (UNCOMMITTED_BASE, UNCOMMITTED_PATCH)
    reach()
    try:
        r = C(REC_PATH, mode)
        opened = True
        exc = None
    except (ValueError, OSError) as e:  # FileNotFoundError / FileExistsError are OSErrors
        opened, exc = False, e
    return _judge_mode(C, mode, sit, opened, exc, r if opened else None, vnow, vcommitted, before, files_before, uncommitted)


def _judge_mode(C, mode, sit, opened, exc, r, vnow, vcommitted, before, files_before, uncommitted):
    after = snap()
    # (mode stays symbolic: it is only compared with the six documented mode strings)
    if not (mode == "r" or mode == "r+" or mode == "a" or mode == "w" or mode == "w-" or mode == "x"):
        return (not opened) and isinstance(exc, ValueError) and after == before
    if mode == "r":
        if sit == ABSENT:
            return (not opened) and isinstance(exc, FileNotFoundError) and after == before
        if not opened or r.mode != "r" or after != before:
            return False
        if view(r) != vnow or not _writes_refused(r):
            return False
        r.close()
        return snap() == before
    if mode == "x" or mode == "w-":
        if sit != ABSENT:
            return (not opened) and isinstance(exc, (FileExistsError, ValueError)) and after == before
        return _fresh_ok(r)
    if mode == "w":
        if not opened:
            return False
        # the whole old record is replaced: none of the old containers survives
        if any(k in after and after[k] == before[k] for k in files_before if k.endswith(".ih5")) and sit != ABSENT:
            return False
        return _fresh_ok(r)
    # r+ / a
    if sit == ABSENT:
        if mode == "r+":
            return (not opened) and isinstance(exc, FileNotFoundError) and after == before
        return _fresh_ok(r)
    if not opened or r.mode != "r+":
        return False
    new = [k for k in after if k not in before]
    changed = [k for k in before if k in after and after[k] != before[k]]
    gone = [k for k in before if k not in after]
    if uncommitted:  # the still-writable newest container may be touched by opening it for writing
        newest = sorted((k for k in files_before if k.endswith(".ih5")), key=lambda f: (len(f), f))[-1]
        changed = [k for k in changed if k != newest]
    if gone or changed:
        return False
    if uncommitted:
        if new:
            return False  # continues the uncommitted container
    else:
        if len([k for k in new if k.endswith(".ih5")]) != 1:
            return False  # exactly one new patch container
    if view(r) != vnow:
        return False
    # writable now; then discard returns to the last commit
    r["zz"] = 9
    if "/zz" not in view(r):
        return False
    if sit == UNCOMMITTED_BASE:
        try:
            r.discard_patch()
            return False  # a base container cannot be discarded
        except ValueError:
            pass
        r.close()
        return True
    r.discard_patch()
    if view(r) != vcommitted:
        return False
    # nothing is pending now: another discard is refused and does not touch the committed containers
    try:
        r.discard_patch()
        note(("discard_patch accepted although nothing is pending",))
        return False
    except ValueError:
        pass
    if view(r) != vcommitted:
        return False
    r.close()
    s2 = snap()
    if uncommitted:  # the uncommitted patch file is gone, everything else as before
        return all(s2.get(k) == before[k] for k in before if k in s2) and len(s2) == len(before) - 1
    return s2 == before


def _fresh_ok(r):
    if r is None or r.mode != "r+" or view(r) != {"/": ("g", None, {})}:
        return False
    fs = [f for f in record_files() if f.endswith(".ih5")]
    if fs != [REC_PATH + ".ih5"]:
        return False
    r["q"] = 1
    r.close()
    r2 = cls()(REC_PATH, "r")
    ok = view(r2) == {"/": ("g", None, {}), "/q": ("d", 1, {})}
    r2.close()
    return ok


PERMS3 = [(0, 1, 2), (0, 2, 1), (1, 0, 2), (1, 2, 0), (2, 0, 1), (2, 1, 0)]


def reopen(sit: int, perm: int, mode: str) -> bool:
    """
    pre: 1 <= sit <= 5 and 0 <= perm <= 5 and len(mode) <= 2
    post: _
    """
    # close + reopen by name and by explicit file list in any order reproduces the view;
    # list form with a creating mode is refused
    C = cls()
    if "sit" in SEL:
        if sit != 1:
            return True
        sit = SEL["sit"]
    for c in range(1, 6):
        if sit == c:
            sit = c
            break
    with untraced():
        vnow, vcommitted = setup(sit, C)
        before = snap()
        files = [k for k in record_files() if k.endswith(".ih5")]
    p = [i for i in PERMS3[perm] if i < len(files)]
    paths = [B.P(files[i]) for i in p]
    reach()
    r2 = C(REC_PATH, "r")
    ok = view(r2) == vnow and [str(x) for x in r2.ih5_files] == sorted(files, key=lambda f: (len(f), f))
    r2.close()
    if not ok or snap() != before:
        return False
    if not (mode == "r" or mode == "r+" or mode == "a"):
        try:
            C(paths, mode)
            return False
        except (ValueError, IndexError):
            return snap() == before
    r = C(paths, mode)
    ok = view(r) == vnow and [str(x) for x in r.ih5_files][:len(files)] == sorted(files, key=lambda f: (len(f), f))
    if mode == "r":
        ok = ok and snap() == before
    r.close(commit=False)
    return ok


def discovery(n1: str, n2: str) -> bool:
    """
    pre: 1 <= len(n1) <= 2 and 1 <= len(n2) <= 2 and n1 != n2
    post: _
    """
    # two records with prefix-related names in one directory
    alph = SEL.get("alphabet", "ab-1")
    if "c1" in SEL and (n1[0] != SEL["c1"] or len(n1) != SEL.get("l1", 1)):
        return True
    for ch in n1:
        if ch not in alph:
            return True
    for ch in n2:
        if ch not in alph:
            return True
    with untraced():
        n1, n2 = str(n1), str(n2)
        B.reset()
        made = {}
        for nm in (n1, n2):
            r = IH5MFRecord(B.root + "/" + nm, "w")
            r["v"] = 1
            r.commit_patch()
            r.create_patch()
            r["w"] = 2
            r.commit_patch()
            r.close()
            pre = B.root + "/" + nm
            made[nm] = sorted(k for k in B.names() if k.endswith(".ih5") and (
                k == pre + ".ih5" or (k.startswith(pre + ".p") and k[len(pre + ".p"):-4].isdigit())))
        B.put_raw(B.root + "/unrelated.txt", b"x")
    reach()
    for nm in (n1, n2):
        got = sorted(str(p) for p in IH5Record.find_files(B.P(B.root + "/" + nm)))
        if got != made[nm]:
            note(("find_files", nm, got, made[nm]))
            return False
        r = IH5Record(B.root + "/" + nm, "r")
        if sorted(view(r)) != ["/", "/v", "/w"]:
            return False
        r.close()
        for f in made[nm]:
            if IH5Record._infer_name(B.P(f)) != nm:
                return False
    recs = sorted(str(p) for p in IH5Record.list_records(B.P(B.root)))
    return recs == sorted(B.root + "/" + nm for nm in (n1, n2))


def name_validity(name: str) -> bool:
    """
    pre: len(name) <= 2
    post: _
    """
    reach()
    ok = len(name) > 0
    for c in name:
        if not (("a" <= c <= "z") or ("A" <= c <= "Z") or ("0" <= c <= "9") or c == "-"):
            ok = False
    return IH5Record._is_valid_record_name(name) == ok


# ---------------------------------------------------------------------------------------
# C02: committed containers (and their manifest sidecars) are never modified again

ACTIONS = ["reopen_r", "reopen_r+", "reopen_a", "create_patch", "write", "delete", "attr", "commit", "discard",
           "close", "close_nocommit", "merge", "open_list_reversed", "reopen_x", "read", "copy", "reopen_w-", "bogus_mode",
           "open_prefix_rw", "merge_onto_existing", "commit_twice"]


def _committed_now():
    """Names of committed containers (user block carries a hash) with their snapshot; plus sidecars."""
    out = {}
    sn = B.snap()
    for k in B.names():
        if B.is_container(k):
            head = B.head(k)
            if b'"hdf5_hashsum": null' not in head and head[:7] == b"ih5_v01":
                out[k] = sn[k]
                side = k + "mf.json"
                if side in sn:
                    out[side] = sn[side]
    return out


def _do(C, st, act, n):
    """Perform one action on state st = {"r": open record or None}; any documented refusal is fine."""
    r = st.get("r")
    try:
        if act.startswith("reopen_") or act == "bogus_mode":
            if r is not None:
                r.close()
                st["r"] = None
            mode = "zz" if act == "bogus_mode" else act.split("_", 1)[1]
            st["r"] = C(REC_PATH, mode)
        elif act == "open_prefix_rw":  # writable open of a strict prefix of the chain (explicit list)
            if r is not None:
                r.close()
                st["r"] = None
            fs = [B.P(k) for k in record_files() if k.endswith(".ih5")]
            fs = sorted(fs, key=lambda f: (len(str(f)), str(f)))
            if len(fs) >= 2:
                st["r"] = C(fs[:-1], "r+")
        elif act == "open_list_reversed":
            if r is not None:
                r.close()
                st["r"] = None
            fs = [B.P(k) for k in reversed(record_files()) if k.endswith(".ih5")]
            st["r"] = C(fs, "r")
        elif r is None:
            return
        elif act == "create_patch":
            r.create_patch()
        elif act == "write":
            r["w%d" % n] = n
        elif act == "delete":
            del r["a"]
        elif act == "attr":
            r["a"].attrs["k"] = 50 + n
        elif act == "commit":
            r.commit_patch()
            st["commits"].append((sorted(k for k in record_files()), view(r)))
        elif act == "discard":
            r.discard_patch()
        elif act == "close":
            had = r._has_writable
            r.close()
            st["r"] = None
        elif act == "close_nocommit":
            r.close(commit=False)
            st["r"] = None
        elif act == "merge":
            r.merge_files(B.P(B.root + "/m%d" % n))
        elif act == "merge_onto_existing":  # target name already taken by another committed record
            r.merge_files(B.P(B.root + "/other"))
        elif act == "commit_twice":
            r.commit_patch()
            st["commits"].append((sorted(k for k in record_files()), view(r)))
            r.commit_patch()
        elif act == "read":
            view(r)
        elif act == "copy":
            r.copy("a", "c%d" % n)
    except (ValueError, KeyError, OSError, TypeError, AssertionError):
        pass  # any refusal is fine here: only the frame condition is judged


def frames(sit: int, a1: int, a2: int, a3: int, a4: int) -> bool:
    """
    pre: 2 <= sit <= 5 and 0 <= a1 <= 20 and 0 <= a2 <= 20 and 0 <= a3 <= 20 and 0 <= a4 <= 20
    post: _
    """
    C = cls()
    k = SEL.get("k", 3)
    acts = []
    if "first" in SEL:
        if a1 != SEL["first"]:
            return True
        a1 = SEL["first"]
    for a in (a1, a2, a3, a4)[:k]:
        for c in range(len(ACTIONS)):
            if a == c:
                acts.append(c)
                break
    for c in (2, 3, 4, 5):
        if sit == c:
            sit = c
            break
    reach()
    P_.sample({"situation": SIT_NAMES[sit], "actions": [ACTIONS[a] for a in acts], "class": SEL.get("cls", "ih5")})
    return P_.native_call("vt.harness.rec", "frames_native", sit, acts)


def frames_native(sit, acts):
    C = cls()
    if True:
        setup(sit, C)
        o = C(B.root + "/other", "w")  # an unrelated committed record in the same directory
        o["o"] = 1
        o.commit_patch()
        o.close()
        st = {"r": None, "commits": []}
        committed = _committed_now()
        for n, a in enumerate(acts):
            _do(C, st, ACTIONS[a], n)
            now = _committed_now()
            allnow = B.snap()
            for name, s in committed.items():
                if name not in allnow:
                    note(("committed file deleted", name, ACTIONS[a]))
                    return False
                cur = allnow[name]
                if cur != s:
                    note(("committed file modified", name, [ACTIONS[x] for x in acts[:n + 1]]))
                    return False
            committed.update({k_: v for k_, v in now.items() if k_ not in committed})
        if st["r"] is not None:
            st["r"].close(commit=False)
        # every file set that existed after a commit is still a valid record showing that state
        for files, v in st["commits"]:
            try:
                r = C([B.P(f) for f in files if f.endswith(".ih5")], "r")
            except (ValueError, OSError) as e:
                note(("file set of an earlier commit no longer opens", files, str(e)[:100]))
                return False
            ok = view(r) == v
            r.close()
            if not ok:
                note(("file set of an earlier commit shows a different state", files))
                return False
    return True
