"""C01/C02/C09 harnesses: the real ih5/overlay.py over the in-memory HDF5 substrate.

State = a stack of n raw containers over a small universe of paths/attribute slots. For each
container and slot a *symbolic kind* (solver-chosen) says what the container holds there:
  path slot: 0 absent, 1 DEL marker, 2 dataset, 3 virtual group, 4 SUBST (overwrite) group
  attr slot: 0 absent, 1 DEL marker, 2 value
Values are distinct concrete tags (the overlay never inspects values other than the DEL
marker, so distinct tags track provenance at least as well as symbolic values would).

Obligations (DESIGN 3.3): (R) read == fold(stack); (W) one write op on the stack behaves like
the same op on the single container materialised from fold(stack) and like the plain substrate
file, the result is fold-consistent, satisfies Inv again, and no older container is touched.
"""
import vt.shims  # noqa: F401
import vt.substrate.install as INST
from vt.part import SEL, reach, note, untraced
import vt.part as P_
from vt.substrate import fakeh5
from vt.spec.fold import Invalid, fold, is_del, SUBST_KEY

import metador_core.ih5.overlay as OV
from metador_core.ih5.overlay import DEL_VALUE, IH5Dataset, IH5Group, IH5AttributeManager, IH5InnerNode, IH5Node
from metador_core.ih5.record import IH5Record

if not P_.NATIVE:
    INST.make_substrate_native()

ENCODED = [
    IH5InnerNode._children, IH5InnerNode._node_seq, IH5InnerNode._find, IH5InnerNode.__getitem__,
    IH5InnerNode.__contains__, IH5InnerNode._guard_key, IH5InnerNode._get_child, IH5InnerNode._get_child_raw,
    IH5InnerNode._expect_real_item_idx, IH5InnerNode.get, IH5InnerNode.keys, IH5InnerNode.items,
    IH5Group.create_group, IH5Group.create_dataset, IH5Group.__setitem__, IH5Group.__delitem__,
    IH5Group._create_virtual, IH5Group.require_group, IH5Group.require_dataset, IH5Group._require_node,
    IH5Group.copy, IH5Group.move, IH5Group.visititems, IH5AttributeManager.__setitem__,
    IH5AttributeManager.__delitem__, IH5Dataset.__getitem__, IH5Dataset.__setitem__, IH5Dataset.copy_into_patch,
    IH5Node._guard_value, IH5Node._guard_read_only, IH5Node._abs_path, IH5Node._rel_path,
    OV.h5_copy_from_to, OV._is_del_mark, OV._node_is_del_mark, OV._node_is_virtual,
    IH5Record._has_writable,
]

ABS, DEL, DS, VIRT, SUBST = 0, 1, 2, 3, 4
A_ABS, A_DEL, A_VAL = 0, 1, 2

# universes: ordered path slots (parents first), attribute slots (path, key)
UNIVERSES = {
    "a_k": (["a"], [("a", "k")]),
    "ax": (["a", "a/x"], []),
    "ax_k": (["a", "a/x"], [("a", "k")]),
    "ax_xk": (["a", "a/x"], [("a/x", "k")]),
    "axy": (["a", "a/x", "a/y"], []),
    "axp": (["a", "a/x", "a/x/p"], []),
    "ab": (["a", "b"], []),
    "ax_b": (["a", "a/x", "b"], []),
    "rootk": (["a"], [("/", "k")]),
}
MAXN, MAXS = 4, 4


def tag(i, j):
    return 1000 + 100 * i + j


def mkrecord(files):
    """A real IH5Record (SEL rcls=mf: IH5MFRecord) around already opened raw containers (what _open assembles)."""
    rcls = IH5Record
    if SEL.get("rcls") == "mf":
        from metador_core.ih5.manifest import IH5MFRecord
        rcls = IH5MFRecord
    r = rcls.__new__(rcls)
    IH5Group.__init__(r, r)
    r._closed = False
    r.__files__ = files
    r._ublocks = {}
    return r


def build(uni, kinds, n, writable=True):
    """kinds[i][j]. Returns list of raw containers or None when a kind is out of range."""
    paths, attrs = UNIVERSES[uni]
    INST.reset()
    files = []
    for i in range(n):
        f = fakeh5.File("/s/f%d" % i, "w")
        have = {}
        for j, p in enumerate(paths):
            par = p.rsplit("/", 1)[0] if "/" in p else None
            if par is not None and have.get(par) not in (VIRT, SUBST):
                continue
            k = kinds[i][j]
            if not (0 <= k <= 4):
                return None
            have[p] = k
            if k == DEL:
                f[p] = DEL_VALUE
            elif k == DS:
                f[p] = tag(i, j)
            elif k in (VIRT, SUBST):
                g = f.create_group(p)
                if k == SUBST:
                    g.attrs[SUBST_KEY] = fakeh5.Empty(None)
        for j, (p, key) in enumerate(attrs):
            if p != "/" and have.get(p) not in (DS, VIRT, SUBST):
                continue
            k = kinds[i][len(paths) + j]
            if not (0 <= k <= 2):
                return None
            if k == A_DEL:
                f[p].attrs[key] = DEL_VALUE
            elif k == A_VAL:
                f[p].attrs[key] = tag(i, len(paths) + j)
        f.mode = "r"
        files.append(f)
    if writable:
        files[-1].mode = "r+"
    for f in files:
        f._store.mtime = 0
    return files


def roots(files):
    return [f._root for f in files]


def view(r):
    """User-visible tree through the overlay API."""
    out = {"/": ("g", None, dict(r.attrs.items()))}

    def cb(name, node):
        if isinstance(node, IH5Dataset):
            out["/" + name] = ("d", node[()], dict(node.attrs.items()))
        else:
            out["/" + name] = ("g", None, dict(node.attrs.items()))

    r.visititems(cb)
    return out


def plainview(f):
    out = {"/": ("g", None, dict(f.attrs.items()))}

    def cb(name, node):
        if isinstance(node, fakeh5.Dataset):
            out["/" + name] = ("d", node[()], dict(node.attrs.items()))
        else:
            out["/" + name] = ("g", None, dict(node.attrs.items()))

    f.visititems(cb)
    return out


PROBES = ["a", "a/x", "a/y", "a/x/p", "b", "/a", "/a/x", "zz", "a/zz", "a/x/zz/q"]


def lookups_ok(r, T):
    """__contains__/__getitem__/get/keys/len agree with the reference tree."""
    for p in PROBES:
        ap = p if p.startswith("/") else "/" + p
        # (a lookup running through a dataset: h5py answers False / KeyError / default, so must IH5)
        try:
            c = p in r
        except ValueError:
            return False
        if c != (ap in T):
            return False
        if c:
            n = r[p]
            if isinstance(n, IH5Dataset) != (T[ap][0] == "d") or n.name != ap:
                return False
            if T[ap][0] == "g":
                kids = sorted(q[len(ap) + 1:] for q in T if q.startswith(ap + "/") and "/" not in q[len(ap) + 1:])
                if list(n.keys()) != kids or len(n) != len(kids) or [k for k in n] != kids:
                    return False
                if n.parent.name != (ap.rsplit("/", 1)[0] or "/"):
                    return False
                if [c.name for c in n.values()] != [ap + "/" + k for k in kids]:
                    return False
                if [(k, c.name) for k, c in n.items()] != [(k, ap + "/" + k) for k in kids]:
                    return False
        else:
            if r.get(p) is not None:
                return False
            try:
                r[p]
                return False
            except (KeyError, ValueError):  # (below a dataset IH5 raises ValueError, h5py KeyError: both fail)
                pass
    top = sorted(q[1:] for q in T if q != "/" and "/" not in q[1:])
    names = []
    r.visit(names.append)
    if sorted("/" + x for x in names) != sorted(q for q in T if q != "/"):
        return False
    return list(r.keys()) == top and len(r) == len(top)


def _kinds(args, n):
    return [list(args[i * MAXS:(i + 1) * MAXS]) for i in range(n)]


def _pick(sym, allowed):
    for c in allowed:
        if sym == c:
            return c
    return None


def realise(uni, kinds, n):
    """Turn the symbolic kinds into concrete ones by solver-driven branching (the substrate is
    concrete Python data, so every kind is realised sooner or later; doing it here lets
    tree-inconsistent and base-container-invalid shapes be cut before anything is built).
    Slots that cannot exist (parent not a group / node absent) are never looked at."""
    paths, attrs = UNIVERSES[uni]
    out = []
    for i in range(n):
        row = [ABS] * (len(paths) + len(attrs))
        have = {}
        for j, p in enumerate(paths):
            par = p.rsplit("/", 1)[0] if "/" in p else None
            if par is not None and have.get(par) not in (VIRT, SUBST):
                continue
            k = _pick(kinds[i][j], (ABS, DS, VIRT) if i == 0 else (ABS, DEL, DS, VIRT, SUBST))
            if k is None:
                return None
            have[p] = row[j] = k
        for j, (p, key) in enumerate(attrs):
            if p != "/" and have.get(p) not in (DS, VIRT, SUBST):
                continue
            k = _pick(kinds[i][len(paths) + j], (A_ABS, A_VAL) if i == 0 else (A_ABS, A_DEL, A_VAL))
            if k is None:
                return None
            row[len(paths) + j] = k
        out.append(row)
    return out


def _apply_fix(kinds):
    """Partition selector: SEL["fix"] = {"i_j": kind} pins some kinds."""
    for key, k in SEL.get("fix", {}).items():
        i, j = key.split("_")
        kinds[int(i)][int(j)] = k
    return kinds


def R(k00: int, k01: int, k02: int, k03: int, k10: int, k11: int, k12: int, k13: int,
      k20: int, k21: int, k22: int, k23: int, k30: int, k31: int, k32: int, k33: int) -> bool:
    """
    post: _
    """
    n, uni = SEL.get("n", 3), SEL.get("u", "ax")
    kinds = _apply_fix(_kinds([k00, k01, k02, k03, k10, k11, k12, k13, k20, k21, k22, k23, k30, k31, k32, k33], n))
    kinds = realise(uni, kinds, n)
    if kinds is None:
        return True
    # every kind is concrete by now: no symbolic value is in flight, so the real code runs in the
    # tracer-free helper process (identical result, much faster); SEL trace=1 keeps it in-process
    if SEL.get("trace"):
        r = r_native(uni, kinds, n)
    else:
        r = P_.native_call("vt.harness.c01", "r_native", uni, kinds, n)
    if r is None:
        return True  # stack outside Inv
    reach()
    P_.sample({"universe": uni, "containers": n, "kinds_per_container": kinds, "obligation": "R"})
    return r


def r_native(uni, kinds, n):
    files = build(uni, kinds, n, writable=False)
    try:
        T = fold(roots(files))
    except Invalid:
        return None
    r = mkrecord(files)
    return view(r) == T and lookups_ok(r, T)


# ---------------------------------------------------------------------------------------
# (W) one write step

OPS = ["create_group", "setitem", "delitem", "attr_set", "attr_del", "require_group", "set_delvalue",
       "create_dataset", "require_dataset", "copy", "move", "ds_write", "set_node", "copy_into_patch",
       "copy_shallow", "copy_noattrs", "copy_node"]
WPATHS = ["a", "a/x", "a/x/q", "b", "b/c", "/a", "a/y", "/", "a@k", ""]
NEWV = 7777


def _handle_view(g):
    """What the *returned* group handle shows (name, children, attribute names, parent)."""
    return (g.name, sorted(g.keys()), len(g), sorted(k for k in g.attrs.keys()), g.parent.name)


def apply_op(r, op, p, q, is_ih5=True):
    """Run one user operation; returns ("ok", info) or ("exc", class name)."""
    try:
        base = SEL.get("base")
        if base:  # operate through a sub-group handle (relative paths resolve against it)
            r = r[base]
            if not isinstance(r, (IH5Group, fakeh5.Group)):
                return ("exc", "BaseNotAGroup")
        if op == "create_group":
            g = r.create_group(p)
            return ("ok", _handle_view(g))
        if op == "setitem":
            r[p] = NEWV
            return ("ok", None)
        if op == "create_dataset":
            d = r.create_dataset(p, data=NEWV)
            return ("ok", d.name)
        if op == "setitem_none":  # a value no tree accepts: fails everywhere and must not change anything
            r[p] = None
            return ("ok", None)
        if op == "delitem":
            del r[p]
            return ("ok", None)
        if op == "attr_set":
            r[p].attrs["k"] = NEWV
            return ("ok", None)
        if op == "attr_del":
            del r[p].attrs["k"]
            return ("ok", None)
        if op == "require_group":
            return ("ok", _handle_view(r.require_group(p)))
        if op == "require_dataset":
            return ("ok", r.require_dataset(p, shape=(), dtype="i8", data=NEWV).name)
        if op == "set_delvalue":
            r[p] = DEL_VALUE
            return ("ok", None)
        if op == "copy":
            r.copy(p, q)
            return ("ok", None)
        if op == "copy_shallow":
            r.copy(p, q, shallow=True)
            return ("ok", None)
        if op == "copy_noattrs":
            r.copy(p, q, without_attrs=True)
            return ("ok", None)
        if op == "copy_node":
            r.copy(r[p], r.require_group(q))
            return ("ok", None)
        if op == "move":
            r.move(p, q)
            return ("ok", None)
        if op == "ds_write":
            node = r[p]
            if not isinstance(node, (IH5Dataset, fakeh5.Dataset)):
                return ("exc", "NotADataset")  # (group[()] = v is not a meaningful call)
            node[()] = NEWV
            return ("ok", None)
        if op == "set_node":
            r[q] = r[p]
            return ("ok", None)
        if op == "copy_into_patch":
            node = r[p]
            if not isinstance(node, IH5Dataset):
                return ("exc", "NotADataset")
            node.copy_into_patch()
            return ("ok", None)
        raise AssertionError(op)
    except (KeyError, ValueError, TypeError, OSError, RuntimeError) as e:
        return ("exc", type(e).__name__)


def materialize(T, name="/s/single"):
    """Single plain container holding exactly the tree T."""
    f = fakeh5.File(name, "w")
    for p in sorted(T):
        kind, val, attrs = T[p]
        if p == "/":
            n = f
        elif kind == "g":
            n = f.create_group(p)
        else:
            n = f.create_dataset(p, data=val)
        for k, v in attrs.items():
            n.attrs[k] = v
    return f


def W(k00: int, k01: int, k02: int, k03: int, k10: int, k11: int, k12: int, k13: int,
      k20: int, k21: int, k22: int, k23: int, k30: int, k31: int, k32: int, k33: int) -> bool:
    """
    post: _
    """
    n, uni = SEL.get("n", 2), SEL.get("u", "ax_k")
    op, p, q = SEL.get("op", "create_group"), SEL.get("p", "a"), SEL.get("q", "b")
    kinds = _apply_fix(_kinds([k00, k01, k02, k03, k10, k11, k12, k13, k20, k21, k22, k23, k30, k31, k32, k33], n))
    kinds = realise(uni, kinds, n)
    if kinds is None:
        return True
    if SEL.get("trace"):
        r = w_native(uni, kinds, n, op, p, q)
    else:
        r = P_.native_call("vt.harness.c01", "w_native", uni, kinds, n, op, p, q)
    if r is None:
        return True
    reach()
    P_.sample({"universe": uni, "containers": n, "kinds_per_container": kinds, "op": op, "p": p, "q": q, "obligation": "W"})
    return r


def w_native(uni, kinds, n, op, p, q):
    files = build(uni, kinds, n, writable=True)
    try:
        T = fold(roots(files))
    except Invalid:
        return None
    return w_check(files, T, op, p, q)


def w_check(files, T, op, p, q):
    n = len(files)
    with untraced():
        single = materialize(T, "/s/single")
        plain = materialize(T, "/s/plain")
    r, rs = mkrecord(files), mkrecord([single])
    before = [f._store.snapshot() for f in files[:-1]]
    res = apply_op(r, op, p, q)
    # 1. frame condition: committed containers untouched (C02)
    if [f._store.snapshot() for f in files[:-1]] != before:
        note("frame condition violated")
        return False
    # 3. the stack still satisfies Inv and reads back as the fold
    with untraced():
        try:
            T2 = fold(roots(files))
        except Invalid as e:
            note(("Inv broken after op", str(e)))
            T2 = None
    if T2 is None:
        return False
    v = view(r)
    if v != T2:
        note(("view differs from fold after op", v, T2))
        return False
    if not lookups_ok(r, T2):
        note("lookups differ after op")
        return False
    if res[0] != "ok" and T2 != T:
        note("failed operation changed the tree")
        return False
    if op in IH5_ONLY:
        return ih5_only_ok(op, p, q, T, T2, res, files)
    # 2. same outcome and tree on the single container materialised from the fold (same code, n=1)
    res_s = apply_op(rs, op, p, q)
    if res[0] != res_s[0] or (res[0] == "ok" and res != res_s):
        note(("outcome differs from single container", res, res_s))
        return False
    if view(rs) != v:
        note(("view differs from single container", v, view(rs)))
        return False
    # 4. same success/failure and same tree as the plain HDF5 file (C09, driver level)
    res_p = apply_op(plain, op, p, q, is_ih5=False)
    if (res[0] == "ok") != (res_p[0] == "ok") or (res[0] == "ok" and res != res_p):
        note(("plain file differs", res, res_p))
        return False
    if res[0] == "ok" and plainview(plain) != v:
        note(("plain tree differs", plainview(plain), v))
        return False
    return True


# IH5-specific behaviour (documented API restrictions, no plain-file counterpart):
#  * dataset[...] = v is refused unless the dataset lives in the newest container
#    (copy_into_patch() is the documented way to edit older data)
#  * copy_into_patch() re-creates the newest value in the patch: view unchanged
#  * assigning the DEL value or a node (hard link) is refused
IH5_ONLY = {"ds_write", "copy_into_patch", "set_node", "set_delvalue"}


def ih5_only_ok(op, p, q, T, T2, res, files):
    ap = p if p.startswith("/") else "/" + p
    n = len(files)
    if op in ("set_node", "set_delvalue"):
        return res[0] == "exc" and T2 == T
    node = T.get(ap)
    if op == "copy_into_patch":
        if T2 != T:
            return False
        if node is None or node[0] != "d":
            return res[0] == "exc"
        in_latest = ap.lstrip("/") in files[-1] or False
        return True
    if op == "ds_write":
        if node is None or node[0] != "d":
            return res[0] == "exc" and T2 == T
        if res[0] == "ok":
            exp = dict(T)
            exp[ap] = ("d", NEWV, T[ap][2])
            return T2 == exp
        return T2 == T
    return False




# ---------------------------------------------------------------------------------------
# key guard (genuinely symbolic string): accepted <=> documented IH5 key alphabet

def guard_key(key: str, attrs: bool) -> bool:
    """
    pre: len(key) <= 3
    post: _
    """
    reach()
    node = IH5AttributeManager.__new__(IH5AttributeManager) if attrs else IH5Group.__new__(IH5Group)
    object.__setattr__(node, "_IH5InnerNode__is_attrs__", attrs) if False else None
    node.__dict__["__is_attrs__"] = True if attrs else False
    ok = len(key) > 0
    for c in key:
        if not ("!" <= c <= "~") or c == "@":
            ok = False
    if attrs and ("/" in key or key == SUBST_KEY):
        ok = False
    # C01 quantifies over keys from the documented alphabet: those must be accepted. What happens to keys
    # outside it is not part of the property (an earlier version demanded refusal, see DESIGN 9.5).
    try:
        node._guard_key(key)
        return True
    except ValueError:
        return not ok
