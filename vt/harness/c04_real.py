"""Stage-2 replay for C04 on real files: containers are written with real h5py, user blocks with
the real IH5UserBlock.save; 'hash does not verify' is produced by changing the payload after
the hash was stored. Native only."""
import shutil
import tempfile
import uuid
from pathlib import Path

import vt.npshim  # noqa: F401
import h5py
from vt.part import SEL

from metador_core.ih5.manifest import IH5MFRecord
from metador_core.ih5.record import IH5Record, IH5UserBlock, hashsum_file, USER_BLOCK_SIZE
from metador_core.schema.types import QualHashsumStr


def U(i):
    return None if i is None else uuid.UUID(int=1000 + i)


def _pred(blocks):
    order = sorted(range(len(blocks)), key=lambda i: blocks[i][1])
    bl = [blocks[i] for i in order]
    n = len(bl)
    if bl[0][3] is not None:
        return False
    for i, (rec, idx, uu, prev, hs) in enumerate(bl):
        if rec != bl[0][0] or hs == 2 or (hs == 0 and i < n - 1):
            return False
        if i > 0 and (not idx > bl[i - 1][1] or prev is None or prev != bl[i - 1][2]):
            return False
    return len({b[2] for b in bl}) == n


def chain(r1, r2, r3, i0, i1, i2, i3, u0, u1, u2, u3, p0, p1, p2, p3):
    n = SEL.get("n", 3)
    hs = list(SEL.get("h", [1] * n)) + [0] * 4
    blocks = [(0, i0, u0, p0, hs[0]), (r1, i1, u1, p1, hs[1]), (r2, i2, u2, p2, hs[2]), (r3, i3, u3, p3, hs[3])][:n]
    tmp = Path(tempfile.mkdtemp(prefix="vt_c04_"))
    try:
        paths = []
        for k, (rec, idx, uu, prev, h) in enumerate(blocks):
            p = tmp / f"f{k}.ih5"
            f = h5py.File(p, "x", userblock_size=USER_BLOCK_SIZE)
            f["d"] = k
            f.close()
            ub = IH5UserBlock(record_uuid=U(100 + rec), patch_index=idx, patch_uuid=U(uu), prev_patch=U(prev), ub_exts={})
            if h:
                ub.hdf5_hashsum = QualHashsumStr(hashsum_file(p, skip_bytes=USER_BLOCK_SIZE))
            ub.save(p)
            if h == 2:  # tamper with the committed payload
                with h5py.File(p, "r+") as f:
                    f["d"][()] = 99
            paths.append(p)
        try:
            r = IH5Record._open(paths)
            r.close()
            got = True
        except ValueError:
            got = False
        exp = _pred(blocks)
        if got != exp:
            raise AssertionError(f"MISMATCH: file set {blocks} opened={got} but coherent={exp}")
        return True
    finally:
        shutil.rmtree(tmp, ignore_errors=True)


def manifest(hext, mexists, mok, stub0, stub1, ext0, h1, p1ok):
    """Real-file version of the manifest scenarios that do not involve stubs or broken chains:
    records written by the real IH5MFRecord / IH5Record, then the newest sidecar is removed or edited."""
    n = SEL.get("n", 2)
    if stub0 or stub1 or (n == 2 and (h1 != 1 or not p1ok)):
        return None  # judged on the substrate only
    tmp = Path(tempfile.mkdtemp(prefix="vt_c04m_"))
    try:
        first = IH5MFRecord if (ext0 if n == 2 else hext) else IH5Record
        r = first(tmp / "rec", "w")
        r["a"] = 1
        r.commit_patch()
        r.close()
        if n == 2:
            second = IH5MFRecord if hext else IH5Record
            r = second(tmp / "rec", "r+")
            r["b"] = 2
            r.commit_patch()
            r.close()
        newest = sorted(tmp.glob("rec*.ih5"), key=lambda f: (len(f.name), f.name))[-1]
        side = Path(str(newest) + "mf.json")
        if hext:
            if not mexists:
                side.unlink()
            elif not mok:
                side.write_bytes(side.read_bytes().replace(b'"manifest_uuid"', b'"manifest_uuid" '))
        try:
            rec = IH5MFRecord(tmp / "rec", "r")
            rec.close()
            got = True
        except ValueError:
            got = False
        exp = not (hext and not (mexists and mok))
        if got != exp:
            raise AssertionError(f"MISMATCH: manifest present={mexists} intact={mok}: record opened={got}, expected {exp}")
        return True
    finally:
        shutil.rmtree(tmp, ignore_errors=True)
