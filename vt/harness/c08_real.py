"""Stage-2 replay for C08 guard on a real MetadorContainer over a real h5py file."""
import shutil
import tempfile

import vt.npshim  # noqa: F401
import h5py
from vt.part import SEL

from metador_core.container import MetadorContainer
from metador_core.container.wrappers import UnsupportedOperationError


def dump(f):
    out = []
    f.visit(out.append)
    return sorted(out)


def guard(pre, rest, nested, absolute, tail, ro, lo, so):
    m, pos = SEL.get("m", "__getitem__"), SEL.get("pos", 0)
    p = ("/" if absolute else "") + ((pre + "/") if nested else "") + "metador_" + rest + ("/x" if tail else "")
    tmp = tempfile.mkdtemp(prefix="vt_c08_")
    try:
        mc = MetadorContainer(h5py.File(tmp + "/c.h5", "w"))
        mc["g/d"] = 1
        mc["g"].create_group("h")
        g = mc["g"].restrict(read_only=ro, local_only=lo, skel_only=so)
        before = dump(mc.__wrapped__)
        fn = getattr(g, m)
        try:
            if m == "copy" and pos == 2:
                fn("d", g["h"], name=p)
            elif m in ("move", "copy"):
                fn(p, "d2") if pos == 0 else fn("d", p)
            elif m == "__setitem__":
                fn(p, 1)
            elif m in ("create_dataset", "require_dataset"):
                fn(p, data=1)
            else:
                fn(p)
            raise AssertionError("reserved path %r accepted by %s" % (p, m))
        except (ValueError, UnsupportedOperationError):
            pass
        if dump(mc.__wrapped__) != before:
            raise AssertionError("raw tree changed by rejected operation")
        mc.close()
        return True
    finally:
        shutil.rmtree(tmp, ignore_errors=True)
