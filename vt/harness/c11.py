"""C11 harnesses: a crash while patching never damages what was committed.

(a) torn user-block write: the bytes of the committed block written by the real save() replace
    the old (uncommitted) block only up to a symbolic cut point k; the real load()/_open must
    fail, or show the old uncommitted block, or the complete new one.
(b) crash points: every mutating primitive of the in-memory file system (container creation,
    HDF5-level write, raw write into the user block, manifest truncation/write, unlink) is a
    step; the process "dies" (BaseException) at a symbolic step while a patch is created,
    filled and committed; the surviving files are then judged.
"""
import vt.harness.rec as R  # installs shims + substrate, provides setup()/view()
from vt.harness.rec import B, REC_PATH, cls, setup, view, snap, record_files, _committed_now
from vt.part import SEL, reach, note, untraced
import vt.part as P_
if not R.REAL:
    from vt.substrate import fakeh5
    from vt.substrate.fakeh5 import Crash
FakePath = B.P

from metador_core.ih5.manifest import IH5MFRecord, IH5UBExtManifest
from metador_core.ih5.record import IH5Record, IH5UserBlock, hashsum_file

ENCODED = [IH5UserBlock.save, IH5UserBlock.load, IH5UserBlock._read_head_raw, IH5Record.commit_patch,
           IH5Record.create_patch, IH5Record._new_container, IH5Record._open, IH5Record._check_ublock,
           IH5MFRecord.commit_patch, IH5MFRecord._open]

OPEN_ERRORS = (ValueError, OSError, KeyError, AssertionError, TypeError, IndexError)


def _scenario(C, sit):
    """Create/continue a patch, fill it, commit it. Returns the final view."""
    r = C(REC_PATH, "r+")
    r["n1"] = 11
    if "/a/x" in view(r):
        del r["a/x"]
    r["a"].attrs["z"] = 12
    r.commit_patch()
    v = view(r)
    r.close()
    return v


def _ub_of(name):
    return IH5UserBlock.load(FakePath(name))


def _judge(C, committed_before, v_committed, v_final, files_committed):
    # 1. previously committed containers byte-identical
    now = snap()
    for k, s in committed_before.items():
        if now.get(k) != s:
            note(("committed file changed or vanished", k))
            return False
    # 2. on their own they still open and show the last committed state
    try:
        r = C([FakePath(f) for f in files_committed], "r")
        ok = view(r) == v_committed
        r.close()
    except OPEN_ERRORS as e:
        note(("committed files alone no longer open", type(e).__name__, str(e)[:120]))
        return False
    if not ok:
        note("committed files alone show a different state")
        return False
    # 3. the complete file set: fails to open | committed + recognisably uncommitted patch | fully committed new state
    try:
        r = C(REC_PATH, "r")
    except OPEN_ERRORS:
        return True
    mf_problem = None
    try:
        newest = r.ih5_meta[-1]
        v = view(r)
        nfiles = len(r.ih5_files)
        if C is IH5MFRecord:
            # a manifest record that opens comes with the manifest of its newest committed container
            # (also below a recognisably uncommitted patch): the manifest is part of the committed state
            metas = r.ih5_meta
            cub = metas[-1] if metas[-1].hdf5_hashsum is not None or len(metas) == 1 else metas[-2]
            cext = IH5UBExtManifest.get(cub)
            try:
                m = r.manifest
                if cext is not None and m.manifest_uuid != cext.manifest_uuid:
                    mf_problem = "rec.manifest is not the manifest linked by the newest committed container"
            except ValueError as e:
                mf_problem = "manifest of the last commit not available: " + str(e)[:80]
    finally:
        r.close()
    if mf_problem is not None:
        note(("complete file set opens, but " + mf_problem,))
        return False
    if newest.hdf5_hashsum is None:
        # interrupted patch, clearly recognisable as uncommitted. Recovery: reopening writable (explicit file list
        # in reversed order, then by name) and discarding the interrupted patch must not damage what was committed.
        allf = sorted((k for k in snap() if k.endswith(".ih5") and k.startswith(REC_PATH + ".")), key=lambda f: (len(f), f))
        for how in (() if R.REAL else ("list_reversed", "name")):
            saved = fakeh5.clone_fs()
            try:
                r = C([FakePath(f) for f in reversed(allf)], "r+") if how == "list_reversed" else C(REC_PATH, "r+")
                r.discard_patch()
                vr = view(r)
                r.close()
            except OPEN_ERRORS as e:
                note(("recovery (reopen r+ and discard) failed", how, type(e).__name__, str(e)[:100]))
                return False
            now2 = snap()
            for k, s_ in committed_before.items():
                if now2.get(k) != s_:
                    note(("recovery discard damaged a committed file", how, k))
                    return False
            if vr != v_committed:
                note(("after recovery discard the view is not the last committed state", how))
                return False
            fakeh5.restore_fs(saved)
        return True
    if C is IH5MFRecord:
        # a committed newest container of a manifest record comes with its manifest (link, sidecar, hash)
        ext = IH5UBExtManifest.get(newest)
        side = FakePath(str(sorted((k for k in snap() if k.endswith(".ih5") and k.startswith(REC_PATH + ".")), key=lambda f: (len(f), f))[-1]) + "mf.json")
        if ext is None or not side.is_file() or hashsum_file(side) != ext.manifest_hashsum:
            note(("opens cleanly as committed, but without (matching) manifest: a state that is never written",))
            return False
    if nfiles == len(files_committed):
        return v == v_committed  # the interrupted patch left nothing behind that is picked up
    if v != v_final:
        note(("opens cleanly with a state that was never committed", v, v_final))
        return False
    return True


def crash(step: int, sit: int) -> bool:
    """
    pre: 1 <= step <= 60 and 2 <= sit <= 5
    post: _
    """
    C = cls()
    if "sit" in SEL:
        if sit != 2:
            return True
        sit = SEL["sit"]
    for c in (2, 3, 4, 5):
        if sit == c:
            sit = c
            break
    for c in range(1, 61):
        if step == c:
            step = c
            break
    with untraced():
        # dry run: count steps and get the final view
        vnow, v_committed = setup(sit, C)
        committed_before = _committed_now()
        files_committed = sorted((k for k in committed_before if k.endswith(".ih5")), key=lambda f: (len(f), f))
        n0 = fakeh5.CRASH["n"]
        v_final = _scenario(C, sit)
        total = fakeh5.CRASH["n"] - n0
        if step > total:
            return True
    reach()
    with untraced():
        setup(sit, C)
        committed_before = _committed_now()
        fakeh5.CRASH["n"] = 0
        fakeh5.CRASH["at"] = step
        try:
            _scenario(C, sit)
            note("crash point not reached")
            return False
        except Crash:
            pass
        fakeh5.CRASH["at"] = None
        return _judge(C, committed_before, v_committed, v_final, files_committed)


def torn(k: int) -> bool:
    """
    pre: 0 <= k <= 700
    post: _
    """
    # commit of the newest container interrupted inside the user-block write
    C = cls()
    sit = SEL.get("sit", 4)  # 1: uncommitted base, 4: uncommitted patch
    kmax = SEL.get("kmax", 700)
    lo = SEL.get("klo", 0)
    if not (lo <= k <= kmax):
        return True
    for c in range(lo, kmax + 1):
        if k == c:
            k = c
            break
    with untraced():
        vnow, v_committed = setup(sit, C)
        committed_before = _committed_now()
        files_committed = sorted((f for f in committed_before if f.endswith(".ih5")), key=lambda f: (len(f), f))
        newest = sorted((f for f in record_files() if f.endswith(".ih5")), key=lambda f: (len(f), f))[-1]
        old_ub = B.head(newest)
        r = C(REC_PATH, "r+")
        r.commit_patch()
        v_final = view(r)
        r.close()
        new_ub = B.head(newest)
        # length of what save() wrote: up to and including the terminating NUL
        wlen = new_ub.index(b"\x00") + 1
        if k > wlen:
            return True
    reach()
    with untraced():
        B.put_head(newest, new_ub[:k] + old_ub[k:])
        # the block itself: raises, or is exactly the old or exactly the new block
        try:
            ub = IH5UserBlock.load(FakePath(newest))
            got = ub.json()
        except (ValueError, AssertionError, TypeError):
            got = None
        if got is not None:
            B.put_head(newest, old_ub)
            o = IH5UserBlock.load(FakePath(newest)).json()
            B.put_head(newest, new_ub)
            n = IH5UserBlock.load(FakePath(newest)).json()
            B.put_head(newest, new_ub[:k] + old_ub[k:])
            if got != o and got != n:
                note(("torn block parses as something that was never written", k, got))
                return False
        if sit == 1:
            committed_before, files_committed = {}, []
            # nothing was committed before: only the three-way outcome of the full set applies
            try:
                r = C(REC_PATH, "r")
            except OPEN_ERRORS:
                return True
            try:
                newest_ub, v = r.ih5_meta[-1], view(r)
            finally:
                r.close()
            return newest_ub.hdf5_hashsum is None or v == v_final
        return _judge(C, committed_before, v_committed, v_final, files_committed)
