"""C15 harnesses: node restrictions (read_only / local_only / skel_only) cannot be escaped.

One-step induction with the three flags as *symbolic booleans*:
 (I1) every navigation primitive yields wrappers whose flags include the origin's flags, and a
      local_only node yields nothing above its local root;
 (I2) on a read_only node every mutating member raises and the recording raw object saw no
      mutating call; on a skel_only node no read of data/attribute values/metadata goes through;
 (I3) restrict() never clears a flag.
(I1)+(I2) give the property for navigation chains of any length.
"""
import vt.shims  # noqa: F401
from vt.part import SEL, reach, note
import types

from vt.harness.c08 import RawDs, RawGrp, MUTATING

from metador_core.container.interface import MetadorMeta, NodeAcl
from metador_core.container.wrappers import (MetadorDataset, MetadorGroup, MetadorNode, UnsupportedOperationError,
                                             WithDefaultQueryStartNode, WrappedAttributeManager)

ENCODED = [MetadorNode.__init__, MetadorNode._child_node_kwargs, MetadorNode.restrict, MetadorNode.acl.fget,
           MetadorNode._guard_acl, MetadorNode._guard_path, MetadorNode._wrap_if_node, MetadorNode.attrs.fget,
           MetadorNode.parent.fget, MetadorNode.file.fget, MetadorNode.meta.fget, MetadorNode.metador.fget,
           WrappedAttributeManager.__init__, WrappedAttributeManager.__getattr__, WrappedAttributeManager.__getitem__,
           WrappedAttributeManager.__setitem__, WrappedAttributeManager.__delitem__, MetadorDataset.__getattr__,
           MetadorDataset.__getitem__, MetadorDataset.__setitem__, MetadorGroup.__delitem__, MetadorGroup.move,
           MetadorGroup.copy, MetadorGroup.items, MetadorGroup.visititems, MetadorMeta.values, MetadorMeta.items,
           MetadorMeta.get, MetadorMeta.__setitem__, MetadorMeta.__delitem__, WithDefaultQueryStartNode.query]


class RecAttrs(dict):
    """Attribute mapping that records reads of values and mutations."""

    def __init__(self, log, *a):
        super().__init__(*a)
        self._log = log

    def __getitem__(self, k):
        self._log.append("attr_read")
        return dict.__getitem__(self, k)

    def get(self, k, d=None):
        self._log.append("attr_read")
        return dict.get(self, k, d)

    def values(self):
        self._log.append("attr_read")
        return dict.values(self)

    def items(self):
        self._log.append("attr_read")
        return dict.items(self)

    def __setitem__(self, k, v):
        self._log.append("attr_write")
        dict.__setitem__(self, k, v)

    def __delitem__(self, k):
        self._log.append("attr_write")
        dict.__delitem__(self, k)

    def pop(self, *a):
        self._log.append("attr_write")
        return dict.pop(self, *a)

    def update(self, *a, **k):
        self._log.append("attr_write")
        return dict.update(self, *a, **k)

    def clear(self):
        self._log.append("attr_write")
        return dict.clear(self)

    def setdefault(self, *a):
        self._log.append("attr_write")
        return dict.setdefault(self, *a)

    def popitem(self):
        self._log.append("attr_write")
        return dict.popitem(self)


class RDs(RawDs):
    def __init__(self, name, log):
        super().__init__(name)
        self._log = log
        self.attrs = RecAttrs(log, {"k": 1})

    def __getitem__(self, k):
        self._log.append("ds_read")
        return 0

    def __setitem__(self, k, v):
        self._log.append("ds_write")

    def get(self, *a):
        self._log.append("ds_read")

    def resize(self, *a):
        self._log.append("ds_write")

    def write_direct(self, *a):
        self._log.append("ds_write")

    def make_scale(self, *a):
        self._log.append("ds_write")

    def flush(self, *a):
        self._log.append("ds_write")


def mkraw():
    log = []
    d = RDs("/g/d", log)
    h = RawGrp("/g/h", [("e", RDs("/g/h/e", log))])
    g = RawGrp("/g", [("d", d), ("h", h)])
    root = RawGrp("/", [("g", g)])
    for grp in (g, h, root):
        grp.calls = log
        grp.attrs = RecAttrs(log, {"k": 1})
    g.parent, d.parent, h.parent, root.parent = root, g, g, root
    h._ch[0][1].parent = h
    return root, g, d, h, log


def superset(child, ro, lo, so):
    a = child.acl
    return (not ro or a[NodeAcl.read_only]) and (not lo or a[NodeAcl.local_only]) and (not so or a[NodeAcl.skel_only])


class _MC:
    """Stand-in for the container object a node refers to (only what `metador.query` needs)."""

    def __init__(self, nodes, log=None):
        self.metador = types.SimpleNamespace(query=lambda schema, version=None, node=None: iter([node] + nodes(node)))
        log = log if log is not None else []

        def raw_get(path, default=None):
            log.append("meta_read")
            return default

        def raw_set(path, val):
            log.append("__setitem__")

        # raw container as seen by MetadorMeta: no metadata stored anywhere; mutations are recorded
        self.__wrapped__ = types.SimpleNamespace(get=raw_get, __setitem__=raw_set)


NAV = ["getitem_ds", "getitem_grp", "get", "values", "items", "visititems", "parent_of_child", "parent", "file",
       "restrict_noop", "query", "create_group", "require_group", "create_dataset", "require_dataset", "nested_path",
       "iter_then_getitem", "child_of_child", "absolute_path", "ds_direct", "ds_child_upward", "child_restricted_parent"]


def _upward_ok(x, ro, lo, so, mc):
    """The protocol's upward members (`parent`, `file`; H5NodeLike) applied to a derived node: under
    local_only `file` is refused and `parent` stays a restricted wrapper inside the local root."""
    lo = lo or x.acl[NodeAcl.local_only]  # (a derived node may carry more restrictions than its origin)
    for attr in ("parent", "file"):
        try:
            r = getattr(x, attr)
        except (UnsupportedOperationError, ValueError):
            if not lo:
                note(("upward member refused without local_only", attr, x.name))
                return False
            continue
        if attr == "file":
            if lo or r is not mc:
                note(("file of a derived node", x.name, type(r).__name__))
                return False
        else:
            if not isinstance(r, MetadorNode) or not superset(r, ro, lo, so):
                note(("parent of a derived node", x.name, type(r).__name__))
                return False
            if lo and not r.name.startswith("/g"):
                return False
    return True


def nav(ro: bool, lo: bool, so: bool, r2: bool, l2: bool, s2: bool) -> bool:
    """
    post: _
    """
    # SEL prim: navigation primitive; the node itself is `g` (restricted with ro/lo/so)
    prim = SEL.get("prim", "getitem_ds")
    root, g, d, h, log = mkraw()
    def _child(o):
        o.parent = g
        return o

    g.create_group = lambda p: (log.append("create_group"), _child(RawGrp("/g/" + p)))[1]
    g.require_group = lambda p: (log.append("require_group"), _child(RawGrp("/g/" + p)))[1]
    g.create_dataset = lambda p, *a, **k: (log.append("create_dataset"), _child(RDs("/g/" + p, log)))[1]
    g.require_dataset = lambda p, *a, **k: (log.append("require_dataset"), _child(RDs("/g/" + p, log)))[1]
    mc = _MC(lambda node: [])
    n = MetadorGroup(mc, g, read_only=ro, local_only=lo, skel_only=so)
    derived = []
    reach()
    try:
        if prim == "getitem_ds":
            derived.append(n["d"])
        elif prim == "getitem_grp":
            derived.append(n["h"])
        elif prim == "get":
            derived.append(n.get("h"))
        elif prim == "values":
            derived += list(n.values())
        elif prim == "items":
            derived += [v for _, v in n.items()]
        elif prim == "visititems":
            n.visititems(lambda name, node: derived.append(node))
        elif prim == "parent_of_child":
            p = n["h"].parent
            derived.append(p)
            if lo and p.name != "/g":
                return False
        elif prim == "parent":
            derived.append(n.parent)
            if lo:
                return False  # a local_only node must not yield its parent
        elif prim == "file":
            f = n.file
            if lo:
                return False  # ... nor the container
            return True
        elif prim == "restrict_noop":
            derived.append(n.restrict(read_only=False, local_only=False, skel_only=False))
            derived.append(n["h"].restrict(read_only=r2, local_only=l2, skel_only=s2))
            if not superset(derived[-1], r2, l2, s2):
                return False
        elif prim == "query":
            derived += list(n.metador.query("x"))
        elif prim in ("create_group", "require_group", "create_dataset", "require_dataset"):
            derived.append(getattr(n, prim)("new") if "group" in prim else getattr(n, prim)("new", data=1))
            if ro:
                return False  # must have been refused
        elif prim == "nested_path":
            derived.append(n["h/e"] if False else n["h"]["e"])
        elif prim == "iter_then_getitem":
            derived += [n[k] for k in n]
        elif prim == "child_of_child":
            c = n["h"]["e"]
            derived += [c, c.parent, c.parent.parent]
            if lo and (c.parent.name != "/g/h" or c.parent.parent.name != "/g"):
                return False
        elif prim == "absolute_path":
            if not lo:
                return True
            derived.append(n["/g/d"])
            return False  # absolute paths are refused on local_only nodes
        elif prim == "ds_direct":
            # a dataset wrapper restricted itself (it is its own local root)
            x = MetadorDataset(mc, d, read_only=ro, local_only=lo, skel_only=so)
            # (restrict() works in place and returns the node: check before and after it)
            for stage, ylo in ((0, lo), (1, lo or l2)):
                if stage == 1:
                    x = x.restrict(read_only=r2, local_only=l2, skel_only=s2)
                    if not superset(x, ro or r2, lo or l2, so or s2):
                        return False
                for attr in ("parent", "file"):
                    try:
                        r = getattr(x, attr)
                    except (UnsupportedOperationError, ValueError):
                        if not ylo:
                            return False
                        continue
                    if ylo:
                        note(("local_only dataset yields", attr, type(r).__name__))
                        return False
                    if attr == "file" and r is not mc:
                        return False
                    if attr == "parent" and not (isinstance(r, MetadorNode) and superset(r, ro, lo, so)):
                        return False
            return True
        elif prim == "child_restricted_parent":
            # a child restricted further than the node it came from: its parent keeps the child's flags too
            c = n["h"].restrict(read_only=r2, local_only=l2, skel_only=s2)
            try:
                p = c.parent
            except (UnsupportedOperationError, ValueError):
                return bool(lo or l2)
            if l2:
                return False  # c is its own local root now
            if not isinstance(p, MetadorNode) or not superset(p, ro or r2, lo, so or s2):
                note(("parent of a further restricted child", {k.name: v for k, v in p.acl.items()}))
                return False
            derived.append(p)
        elif prim == "ds_child_upward":
            derived += [n["d"], n["h"]["e"], n.get("d")]
    except (UnsupportedOperationError, ValueError):
        if prim in ("parent", "file", "absolute_path"):
            return bool(lo)
        if prim in ("create_group", "require_group", "create_dataset", "require_dataset"):
            return bool(ro) and not any(c in MUTATING for c in log)
        note(("navigation refused", prim))
        return False
    for x in derived:
        if not isinstance(x, MetadorNode) or not superset(x, ro, lo, so):
            return False
        if lo and not x.name.startswith("/g"):
            return False  # nothing above the local root
        if not _upward_ok(x, ro, lo, so, mc):
            return False
    return True


MUT = ["setitem", "delitem", "create_group", "require_group", "create_dataset", "require_dataset", "move", "copy",
       "attr_set", "attr_del", "attr_pop", "attr_update", "attr_clear", "attr_setdefault", "ds_setitem", "ds_resize",
       "ds_write_direct", "ds_attr_set", "child_attr_set", "meta_set", "meta_del", "ds_meta_set"]
WRITES = MUTATING | {"attr_write", "ds_write"}


def mutate(ro: bool, lo: bool, so: bool) -> bool:
    """
    post: _
    """
    m = SEL.get("m", "setitem")
    root, g, d, h, log = mkraw()
    n = MetadorGroup(_MC(lambda node: [], log), g, read_only=ro, local_only=lo, skel_only=so)
    if not ro:
        return True  # (I2) is about read_only nodes
    reach()
    try:
        if m == "setitem":
            n["new"] = 1
        elif m == "delitem":
            del n["d"]
        elif m in ("create_group", "require_group"):
            getattr(n, m)("new")
        elif m in ("create_dataset", "require_dataset"):
            getattr(n, m)("new", data=1)
        elif m == "move":
            n.move("d", "d2")
        elif m == "copy":
            n.copy("d", "d2")
        elif m == "attr_set":
            n.attrs["k"] = 2
        elif m == "attr_del":
            del n.attrs["k"]
        elif m == "attr_pop":
            n.attrs.pop("k")
        elif m == "attr_update":
            n.attrs.update({"k": 3})
        elif m == "attr_clear":
            n.attrs.clear()
        elif m == "attr_setdefault":
            n.attrs.setdefault("z", 3)
        elif m == "ds_setitem":
            n["d"][()] = 5
        elif m == "ds_resize":
            n["d"].resize((1,))
        elif m == "ds_write_direct":
            n["d"].write_direct(None)
        elif m == "ds_attr_set":
            n["d"].attrs["k"] = 2
        elif m == "child_attr_set":
            n["h"].attrs["k"] = 2
        elif m == "meta_set":
            n.meta["core.file"] = {}
        elif m == "meta_del":
            del n.meta["core.file"]
        elif m == "ds_meta_set":
            n["d"].meta["core.file"] = {}
        refused = False
    except UnsupportedOperationError:
        refused = True
    except (KeyError, ValueError, TypeError, AttributeError) as e:
        note(("unexpected exception class", m, type(e).__name__, str(e)[:100]))
        return False
    return refused and not any(c in WRITES for c in log)


READS = ["ds_getitem", "ds_get", "attr_getitem", "attr_get", "attr_values", "attr_items", "child_ds_getitem",
         "child_attr_getitem", "meta_get", "meta_values", "meta_items", "meta_getitem", "attr_keys_ok", "keys_ok"]


def skel(ro: bool, lo: bool, so: bool) -> bool:
    """
    post: _
    """
    m = SEL.get("m", "ds_getitem")
    root, g, d, h, log = mkraw()
    n = MetadorGroup(_MC(lambda node: [], log), g, read_only=ro, local_only=lo, skel_only=so)
    if not so:
        return True
    reach()
    try:
        if m == "ds_getitem":
            n["d"][()]
        elif m == "ds_get":
            n["d"].get()
        elif m == "attr_getitem":
            n.attrs["k"]
        elif m == "attr_get":
            n.attrs.get("k")
        elif m == "attr_values":
            list(n.attrs.values())
        elif m == "attr_items":
            list(n.attrs.items())
        elif m == "child_ds_getitem":
            n["h"]["e"][()]
        elif m == "child_attr_getitem":
            n["h"].attrs["k"]
        elif m == "meta_get":
            n.meta.get("core.file")
        elif m == "meta_getitem":
            n.meta["core.file"]
        elif m == "meta_values":
            n.meta.values()
        elif m == "meta_items":
            n.meta.items()
        elif m == "attr_keys_ok":  # existence may be checked
            return list(n.attrs.keys()) == ["k"] and ("k" in n.attrs) and "attr_read" not in log
        elif m == "keys_ok":
            return list(n.keys()) == ["d", "h"] and "d" in n
        refused = False
    except UnsupportedOperationError:
        refused = True
    except (KeyError, ValueError, TypeError, AttributeError) as e:
        note(("unexpected exception class", m, type(e).__name__, str(e)[:100]))
        return False
    return refused and "ds_read" not in log and "attr_read" not in log


def restrict_monotone(ro: bool, lo: bool, so: bool, r2: bool, l2: bool, s2: bool, r3: bool, l3: bool, s3: bool) -> bool:
    """
    post: _
    """
    root, g, d, h, log = mkraw()
    n = MetadorGroup(None, g, read_only=ro, local_only=lo, skel_only=so)
    reach()
    a = n.restrict(read_only=r2, local_only=l2, skel_only=s2)
    b = a.restrict(read_only=r3, local_only=l3, skel_only=s3)
    acl = b.acl
    return (acl[NodeAcl.read_only] == (ro or r2 or r3) and acl[NodeAcl.local_only] == (lo or l2 or l3)
            and acl[NodeAcl.skel_only] == (so or s2 or s3) and superset(n["d"], ro or r2 or r3, lo or l2 or l3, so or s2 or s3))


def mutators_known(x: bool) -> bool:
    """
    post: _
    """
    # the mutator list of (I2) covers every mutating member the code base knows about
    import collections.abc as abc
    from metador_core.util import types as T

    reach()
    proto = {"__setitem__", "__delitem__", "create_group", "require_group", "create_dataset", "require_dataset", "move", "copy"}
    have_proto = {n for n in proto if hasattr(T.H5GroupLike, n)}
    mapping_mut = {n for n in ("__setitem__", "__delitem__", "pop", "popitem", "clear", "update", "setdefault")
                   if hasattr(abc.MutableMapping, n)}
    covered_ds = {"resize", "write_direct", "make_scale", "flush"}
    return (have_proto == proto and MetadorDataset._self_RO_FORBIDDEN <= covered_ds | {"flush", "make_scale"}
            and mapping_mut == {"__setitem__", "__delitem__", "pop", "popitem", "clear", "update", "setdefault"}
            and set(WrappedAttributeManager._self_acl_whitelist[NodeAcl.read_only]) <= {"keys", "values", "items", "get"}
            and set(WrappedAttributeManager._self_acl_whitelist[NodeAcl.skel_only]) <= {"keys"})
