"""C19 harnesses: hashsum chunk loop, dir_hashsums tree construction, rel_symlink.

Environment stubs (listed in the evidence): a *recording* hash object (digest = hex of the
concatenated updates, block_size 2) registered under the algorithm name "rec" -- injective, so
equal digests <=> equal content; an in-memory directory whose entries answer
is_file()/is_symlink() like a POSIX file system (is_file follows links), `open` and
`os.readlink` of the hashsums module rebound to it, `resolve()` physical like pathlib (link chains followed).
"""
import vt.shims  # noqa: F401
from vt.part import SEL, reach, note
import posixpath
import types
from pathlib import PurePosixPath

import metador_core.util.hashsums as HS

ENCODED = [HS.hashsum, HS.qualified_hashsum, HS.file_hashsum, HS.rel_symlink, HS.dir_hashsums]


LAST = []  # buffers of the recording hash objects created so far


class RecHash:
    block_size = 2

    def __init__(self):
        self.buf = b""
        LAST.append(self)

    def update(self, c):
        if len(c) > self.block_size:
            raise AssertionError("read() returned more than requested")
        self.buf = self.buf + c

    def hexdigest(self):
        if SEL.get("nohex"):  # keep content symbolic: the oracle inspects .buf instead
            return "d%d" % len(LAST)
        return self.buf.hex()


HS._hash_alg["rec"] = RecHash


class Stream:
    """Binary stream that may return short reads according to a schedule."""

    def __init__(self, data, sched=()):
        self.data, self.sched, self.pos, self.i = data, sched, 0, 0

    def read(self, n=-1):
        k = n
        if self.i < len(self.sched):
            k = max(1, min(n, self.sched[self.i]))
            self.i += 1
        r = self.data[self.pos:self.pos + k]
        self.pos += len(r)
        return r

    def __enter__(self):
        return self

    def __exit__(self, *a):
        return False


def chunk(data: bytes, s0: int, s1: int, s2: int) -> bool:
    """
    pre: len(data) <= 8
    post: _
    """
    if len(data) > SEL.get("maxlen", 4):
        return True
    reach()
    SEL["nohex"] = 1
    del LAST[:]
    r1 = HS.qualified_hashsum(Stream(data, [s0, s1, s2]), "rec")
    r2 = HS.hashsum(Stream(data, [s2, s0]), "rec")
    return (r1 == "rec:d1" and r2 == "d2" and len(LAST) == 2
            and LAST[0].buf == data and LAST[1].buf == data)


def chunk_bytes(b0: int, b1: int, b2: int, n: int) -> bool:
    """
    pre: 0 <= b0 <= 2 and 0 <= b1 <= 2 and 0 <= b2 <= 2 and 0 <= n <= 3
    post: _
    """
    # bytes argument: wrapped in io.BytesIO (C) -> content realised, hence the small alphabet
    data = bytes([b0, b1, b2][:n])
    reach()
    return HS.qualified_hashsum(data, "rec") == "rec:" + data.hex()


def unknown_alg(alg: str) -> bool:
    """
    pre: len(alg) <= 6
    post: _
    """
    reach()
    known = alg in ("sha256", "sha512", "rec")
    try:
        HS.qualified_hashsum(Stream(b"ab"), alg)
        return known
    except ValueError:
        return not known


# ---------------------------------------------------------------------------------------
# in-memory directory

ROOT = "/r"
WORLD = {}  # abs path -> ("f", content) | ("l", link text) | ("d",)


class FP(PurePosixPath):
    def _info(self):
        return WORLD.get(str(self))

    def is_symlink(self):
        i = self._info()
        return i is not None and i[0] == "l"

    def _follow(self, depth=0):
        i = self._info()
        if i is None or depth > 4:
            return None
        if i[0] != "l":
            return self
        return FP(posixpath.normpath(posixpath.join(str(self.parent), i[1])))._follow(depth + 1)

    def is_file(self):
        t = self._follow()
        return t is not None and t._info()[0] == "f"

    def is_dir(self):
        t = self._follow()
        return t is not None and t._info()[0] == "d"

    def resolve(self):
        # physical resolution like pathlib (strict=False): components left to right, symlinks followed
        # (chains too), ".." taken physically, missing components kept; validated by fidelity()
        return FP(_resolve(str(self)))


def _resolve(path, depth=0):
    if depth > 8:
        raise RuntimeError("Symlink loop from %r" % path)
    segs = [x for x in path.split("/") if x and x != "."]
    cur = "/"
    for i, x in enumerate(segs):
        if x == "..":
            cur = posixpath.dirname(cur)
            continue
        nxt = posixpath.join(cur, x)
        info = WORLD.get(nxt)
        if info is not None and info[0] == "l":
            tgt = info[1] if info[1].startswith("/") else posixpath.join(cur, info[1])
            rest = "/".join(segs[i + 1:])
            return _resolve(posixpath.join(tgt, rest) if rest else tgt, depth + 1)
        cur = nxt
    return cur


class Dir(FP):
    ORDER = []

    def rglob(self, pat):
        assert pat == "*"
        return [FP(p) for p in Dir.ORDER]


def _open(path, mode="rb"):
    t = FP(str(path))._follow()
    if t is None or t._info()[0] != "f":
        raise FileNotFoundError(str(path))
    return Stream(t._info()[1])


def _readlink(p):
    i = WORLD.get(str(p))
    if i is None or i[0] != "l":
        raise OSError("not a link: " + str(p))
    return i[1]


HS.open = _open
HS.os = types.SimpleNamespace(readlink=_readlink, path=posixpath)

ABSENT, FILE, LINK, DIRK = 0, 1, 2, 3
TARGETS = ["a", "d", "../o/f", "d/../a", "nx"]  # relative to ROOT
CONTENTS = [b"", b"x", b"xy"]


def make_world(slots, kinds, cids, tids, out_exists):
    """slots: list of relative paths (parents before children). Returns abstract description
    {rel: ("f", content) | ("l", target rel-to-root) | ("d",)} of present entries, or None if
    a symlink cycle would arise (outside the claim: pathlib raises RuntimeError there)."""
    WORLD.clear()
    WORLD[ROOT] = ("d",)
    WORLD["/o"] = ("d",)
    if out_exists:
        WORLD["/o/f"] = ("f", b"out")
    desc = {}
    for i, rel in enumerate(slots):
        par = posixpath.dirname(rel)
        if par and desc.get(par, (None,))[0] != "d":
            continue
        k = kinds[i]
        ap = ROOT + "/" + rel
        if k == FILE:
            desc[rel] = ("f", CONTENTS[cids[i]])
            WORLD[ap] = desc[rel]
        elif k == LINK:
            t = TARGETS[tids[i]]
            text = ("../" * rel.count("/")) + t  # link text relative to the link's directory
            desc[rel] = ("l", t)
            WORLD[ap] = ("l", text)
        elif k == DIRK:
            desc[rel] = ("d",)
            WORLD[ap] = ("d",)
    for rel, d in desc.items():
        if d[0] == "l":
            tgt = posixpath.normpath(d[1])
            seen, cur = {rel}, tgt
            while desc.get(cur, (None,))[0] == "l":  # link -> link chains are followed; cycles are outside the claim
                if cur in seen:
                    return None
                seen.add(cur)
                cur = posixpath.normpath(desc[cur][1])
            if rel.split("/")[0] in d[1].split("/")[:-1] and "/" not in rel:
                return None  # link text runs through the link itself (ELOOP on a real fs)
    return desc


def phys_norm(link_abs, text):
    """The link's own target with '.', '..' normalised physically ('..' after a component that is a symlink to
    a directory elsewhere is taken where that directory really is); other links on the way are not followed."""
    cur = "/" if text.startswith("/") else _resolve(posixpath.dirname(link_abs))
    for comp in text.split("/"):
        if comp in ("", "."):
            continue
        cur = posixpath.dirname(_resolve(cur)) if comp == ".." else posixpath.join(cur, comp)
    return posixpath.relpath(cur, _resolve(ROOT))


def spec(desc):
    """Expected hashsum tree, or "ERR" if some symlink leads outside the directory."""
    out = {}
    for rel in sorted(desc):
        d = desc[rel]
        cur = out
        segs = rel.split("/")
        for s in segs[:-1]:
            cur = cur[s]
        if d[0] == "d":
            cur[segs[-1]] = {}
        elif d[0] == "f":
            cur[segs[-1]] = "rec:" + d[1].hex()
        else:
            ap = ROOT + "/" + rel
            n = phys_norm(ap, WORLD[ap][1])
            fin = posixpath.relpath(_resolve(posixpath.join(posixpath.dirname(ap), WORLD[ap][1])), _resolve(ROOT))
            if n.startswith("..") or fin.startswith(".."):
                return "ERR"
            cur[segs[-1]] = "symlink:" + n
    return out


def run(desc, order):
    Dir.ORDER = [ROOT + "/" + r for r in order if r in desc]
    try:
        return HS.dir_hashsums(Dir(ROOT), "rec")
    except ValueError:
        return "ERR"


PERMS3 = [(0, 1, 2), (0, 2, 1), (1, 0, 2), (1, 2, 0), (2, 0, 1), (2, 1, 0)]


def tree3(kx: int, ca: int, cd: int, cx: int, ta: int, td: int, tx: int, out_exists: bool, perm: int) -> bool:
    """
    pre: 0 <= kx <= 3 and 0 <= ca <= 2 and 0 <= cd <= 2 and 0 <= cx <= 2
    pre: 0 <= ta <= 4 and 0 <= td <= 4 and 0 <= tx <= 4 and 0 <= perm <= 5
    post: _
    """
    # slots a, d, d/x; kinds of a and d fixed by the partition
    slots = ["a", "d", "d/x"]
    ka, kd = SEL.get("ka", 1), SEL.get("kd", 3)
    if "kx" in SEL:
        if kx != 0:
            return True
        kx = SEL["kx"]
    desc = make_world(slots, [ka, kd, kx], [ca, cd, cx], [ta, td, tx], out_exists)
    if desc is None:
        return True
    present = [s for s in slots if s in desc]
    p = [i for i in PERMS3[perm] if i < len(present)]
    order2 = [present[i] for i in p]
    reach()
    exp = spec(desc)
    r1 = run(desc, present)
    r2 = run(desc, order2)
    return r1 == exp and r2 == exp


def _ld_world(ti):
    WORLD.clear()
    WORLD[ROOT] = ("d",)
    WORLD["/o"] = ("d",)
    desc = {"f": ("f", b"x"), "sub": ("d",), "sub/f": ("f", b"xy"), "sub/deep": ("d",), "sd": ("l", "sub/deep"),
            "l": ("l", LD_TARGETS[ti])}
    for rel, d in desc.items():
        WORLD[ROOT + "/" + rel] = d
    return desc


def realfs_linkdir(t, t2):
    """Stage 2: the same two directories on a real file system (real pathlib/os/hashlib)."""
    res = []
    for ti in (t, t2):
        desc = _ld_world(ti)
        want = spec(desc)
        got, _ = _real_run(dict(desc), dict(WORLD), None)
        if (got == "ERR") != (want == "ERR"):
            raise AssertionError("link %r: got %r want %r" % (LD_TARGETS[ti], got if got == "ERR" else got.get("l"), want if want == "ERR" else want["l"]))
        if got != "ERR" and (got["l"] != want["l"] or got["sd"] != want["sd"]):
            raise AssertionError("link %r recorded as %r, expected %r" % (LD_TARGETS[ti], got["l"], want["l"]))
        res.append(got)
    return True


LD_TARGETS = ["sd/../f", "f", "sub/f", "sd/../../f", "sd/..", "sub", "sd/f", "sd/../deep", "./sd/.././f", "sub/deep/../f"]


def linkdir(t: int, t2: int) -> bool:
    """
    pre: 0 <= t < 10 and 0 <= t2 < 10
    post: _
    """
    # fixed directory with a symlink to a directory at another depth (sd -> sub/deep); one link `l` whose target
    # (solver-chosen, realised) uses '..' after `sd`: the recorded target is the physically normalised one, and two
    # directories that differ only in the target of `l` get equal trees exactly when those are equal
    a = b = 0
    for i in range(10):
        if t == i:
            a = i
        if t2 == i:
            b = i
    reach()
    import vt.part as P_
    return P_.native_call("vt.harness.c19", "linkdir_native", a, b)


def linkdir_native(t, t2):
    order = ["f", "sub", "sub/f", "sub/deep", "sd", "l"]
    d1 = _ld_world(t)
    e1, r1 = spec(d1), run(d1, order[3:] + order[:3])
    d2 = _ld_world(t2)
    e2, r2 = spec(d2), run(d2, order)
    if r1 != e1 or r2 != e2:
        note(("hashsum tree differs from the specification", LD_TARGETS[t], r1 if r1 != e1 else r2, e1 if r1 != e1 else e2))
        return False
    if r1 == "ERR" or r2 == "ERR":
        return True
    same = phys_norm(ROOT + "/l", LD_TARGETS[t]) == phys_norm(ROOT + "/l", LD_TARGETS[t2])
    return (r1 == r2) == same


def _same(d1, d2):
    """The property's equality on directories: same names, file contents, normalised in-dir
    link targets, subdirectories."""
    def nz(d):
        return {k: (v if v[0] != "l" else ("l", posixpath.normpath(v[1]))) for k, v in d.items()}
    return nz(d1) == nz(d2)


def pair2(ka: int, kb: int, ca: int, cb: int, ta: int, tb: int, out_exists: bool) -> bool:
    """
    pre: 0 <= ka <= 3 and 0 <= kb <= 3 and 0 <= ca <= 1 and 0 <= cb <= 1 and 0 <= ta <= 2 and 0 <= tb <= 2
    post: _
    """
    # two directories over names a, b: D1 fixed kinds by partition + symbolic payload (SEL p1),
    # D2 fully symbolic: trees equal <=> directories the same
    slots = ["a", "b"]
    k1 = SEL.get("k1", [1, 1])
    c1 = SEL.get("c1", [0, 0])
    t1 = SEL.get("t1", [0, 0])
    tmap = [0, 2, 4]  # targets a, ../o/f, nx
    d1 = make_world(slots, k1, c1, [tmap[t] for t in t1], out_exists)
    if d1 is None:
        return True
    r1 = run(d1, ["b", "a"])
    e1 = spec(d1)  # (the specification looks at the in-memory directory: take it before D2 replaces D1)
    d1 = dict(d1)
    d2 = make_world(slots, [ka, kb], [ca, cb], [tmap[ta], tmap[tb]], out_exists)
    if d2 is None:
        return True
    r2 = run(d2, ["a", "b"])
    reach()
    e2 = spec(d2)
    if (r1 == "ERR") != (e1 == "ERR") or (r2 == "ERR") != (e2 == "ERR"):
        return False  # a symlink leading outside must be rejected, and only that
    if r1 == "ERR" or r2 == "ERR":
        return True
    return (r1 == r2) == _same(d1, d2)


def fidelity() -> int:
    """Native: the in-memory directory agrees with a real directory on a few shapes (real
    pathlib/os, temp dir removed afterwards), on the *repaired or pinned* dir_hashsums alike:
    only is_file/is_symlink/readlink/resolve answers are compared."""
    import os
    import shutil
    import tempfile
    from pathlib import Path

    n = 0
    base = Path(tempfile.mkdtemp(prefix="vt_c19_"))
    try:
        cases = [
            (["a", "d", "d/x"], [FILE, DIRK, LINK], [1, 0, 0], [0, 0, 0]),
            (["a", "d", "d/x"], [LINK, DIRK, FILE], [0, 0, 2], [1, 0, 0]),
            (["a", "d", "d/x"], [LINK, FILE, ABSENT], [0, 1, 0], [4, 0, 0]),
            (["a", "d", "d/x"], [FILE, DIRK, LINK], [1, 0, 0], [0, 0, 3]),
            (["a", "d", "d/x"], [FILE, LINK, ABSENT], [1, 0, 0], [0, 0, 0]),
            (["a", "d", "d/x"], [LINK, DIRK, DIRK], [0, 0, 0], [2, 0, 0]),
            (["a", "d", "d/x"], [LINK, LINK, ABSENT], [0, 0, 0], [1, 4, 0]),  # chain a -> d -> nx
            (["a", "d", "d/x"], [FILE, LINK, ABSENT], [1, 0, 0], [0, 3, 0]),  # d -> d/../a through itself: skipped (None)
            (["a", "d", "d/x"], [LINK, DIRK, LINK], [0, 0, 0], [1, 0, 0]),    # a -> d (dir), d/x -> a: chain d/x -> a -> d
        ]
        for ci, (slots, kinds, cids, tids) in enumerate(cases):
            for out_exists in (False, True):
                root = base / f"c{ci}{int(out_exists)}" / "r"
                root.mkdir(parents=True)
                (root.parent / "o").mkdir()
                if out_exists:
                    (root.parent / "o" / "f").write_bytes(b"out")
                desc = make_world(slots, kinds, cids, tids, out_exists)
                if desc is None:
                    continue
                for rel, d in desc.items():
                    p = root / rel
                    if d[0] == "f":
                        p.write_bytes(d[1])
                    elif d[0] == "d":
                        p.mkdir()
                    else:
                        os.symlink(WORLD[ROOT + "/" + rel][1], p)
                for rel in desc:
                    fp, rp = FP(ROOT + "/" + rel), root / rel
                    assert fp.is_file() == rp.is_file(), (ci, rel, "is_file")
                    assert fp.is_symlink() == rp.is_symlink(), (ci, rel, "is_symlink")
                    if rp.is_symlink():
                        assert _readlink(fp) == os.readlink(str(rp))
                        lex = (fp.parent / _readlink(fp)).resolve()
                        real = (rp.parent / os.readlink(str(rp))).resolve()
                        try:
                            a = str(lex.relative_to(FP(ROOT)))
                        except ValueError:
                            a = None
                        try:
                            b = str(real.relative_to(root.resolve()))
                        except ValueError:
                            b = None
                        assert a == b, (ci, rel, a, b)
                    n += 1
    finally:
        shutil.rmtree(base, ignore_errors=True)
    return n


# ---------------------------------------------------------------------------------------
# stage-2 replay on a real file system (real pathlib / os / hashlib.sha256)

def _real_run(desc, world, order_rel):
    import hashlib
    import os
    import shutil
    import tempfile
    from pathlib import Path
    import importlib

    real = importlib.reload(importlib.import_module("metador_core.util.hashsums"))  # undo the stubs
    real.__dict__.pop("open", None)
    base = Path(tempfile.mkdtemp(prefix="vt_c19_"))
    try:
        root = base / "r"
        root.mkdir()
        (base / "o").mkdir()
        if "/o/f" in world:
            (base / "o" / "f").write_bytes(b"out")
        for rel in sorted(desc):
            d, p = desc[rel], root / rel
            if d[0] == "f":
                p.write_bytes(d[1])
            elif d[0] == "d":
                p.mkdir()
            else:
                os.symlink(world[ROOT + "/" + rel][1], p)
        try:
            got = real.dir_hashsums(root)
        except ValueError:
            got = "ERR"

        def exp(desc):
            out = {}
            for rel in sorted(desc):
                d = desc[rel]
                cur = out
                segs = rel.split("/")
                for s_ in segs[:-1]:
                    cur = cur[s_]
                if d[0] == "d":
                    cur[segs[-1]] = {}
                elif d[0] == "f":
                    cur[segs[-1]] = "sha256:" + hashlib.sha256(d[1]).hexdigest()
                else:
                    n = posixpath.normpath(d[1])
                    if n.startswith(".."):
                        return "ERR"
                    cur[segs[-1]] = "symlink:" + n
            return out
        return got, exp(desc)
    finally:
        shutil.rmtree(base, ignore_errors=True)


def _judge(got, want, desc):
    if got == want:
        return True
    if want == "ERR":
        raise AssertionError("outside-link-not-rejected: got %r" % (got,))
    if got != "ERR" and any(d[0] == "l" for d in desc.values()):
        raise AssertionError("symlink-hashed-as-file: got %r want %r" % (got, want))
    raise AssertionError("tree differs: got %r want %r" % (got, want))


def realfs_tree3(kx, ca, cd, cx, ta, td, tx, out_exists, perm):
    slots = ["a", "d", "d/x"]
    desc = make_world(slots, [SEL.get("ka", 1), SEL.get("kd", 3), SEL.get("kx", kx)], [ca, cd, cx], [ta, td, tx], out_exists)
    if desc is None:
        return True
    got, want = _real_run(dict(desc), dict(WORLD), None)
    return _judge(got, want, desc)


def realfs_pair2(ka, kb, ca, cb, ta, tb, out_exists):
    slots = ["a", "b"]
    tmap = [0, 2, 4]
    d1 = make_world(slots, SEL.get("k1"), SEL.get("c1"), [tmap[t] for t in SEL.get("t1")], out_exists)
    g1, w1 = _real_run(dict(d1), dict(WORLD), None)
    d1 = dict(d1)
    d2 = make_world(slots, [ka, kb], [ca, cb], [tmap[ta], tmap[tb]], out_exists)
    g2, w2 = _real_run(dict(d2), dict(WORLD), None)
    _judge(g1, w1, d1)
    _judge(g2, w2, d2)
    return True


def realfs_chunk(data, s0, s1, s2):
    """Stage 2 for the chunk loop: real hashlib digests, same short-read schedules."""
    import hashlib
    import importlib

    real = importlib.reload(importlib.import_module("metador_core.util.hashsums"))
    for alg in ("sha256", "sha512"):
        want = alg + ":" + hashlib.new(alg, data).hexdigest()
        for sched in ([s0, s1, s2], [s2, s0], []):
            got = real.qualified_hashsum(Stream(data, sched), alg)
            if got != want:
                raise AssertionError("digest differs for %r schedule %r: %s != %s" % (data, sched, got, want))
    return True


def realfs_chunk_bytes(b0, b1, b2, n):
    import hashlib
    import importlib

    real = importlib.reload(importlib.import_module("metador_core.util.hashsums"))
    data = bytes([b0, b1, b2][:n])
    return real.qualified_hashsum(data, "sha256") == "sha256:" + hashlib.sha256(data).hexdigest()


def realfs_unknown_alg(alg):
    import importlib

    real = importlib.reload(importlib.import_module("metador_core.util.hashsums"))
    try:
        real.qualified_hashsum(b"ab", alg)
        return alg in ("sha256", "sha512")
    except ValueError:
        return alg not in ("sha256", "sha512")
