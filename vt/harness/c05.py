"""C05 harness: merge materialises the overlay view and continues the patch chain.

A symbolic container stack (kinds as in the C01 harness) is written as a *record on the
in-memory file system* (containers with real user blocks: real IH5UserBlock.create/save, real
hashsum_file), opened through the real IH5Record/IH5MFRecord, merged with the real
merge_files/h5_copy_from_to, and compared with fold(stack).
"""
import vt.harness.c01 as C1  # installs shims + substrate
from vt.harness.c01 import ABS, DEL, DS, VIRT, SUBST, A_DEL, A_VAL, UNIVERSES, realise, tag, _kinds, _apply_fix
from vt.part import SEL, reach, note, untraced
import vt.part as P_
from vt.shims import patch_pydantic_copy
from vt.spec.fold import Invalid, fold, SUBST_KEY
from vt.substrate import fakeh5
from vt.substrate.fakeh5 import FakePath
import vt.substrate.install as INST

import metador_core.ih5.record as REC
from metador_core.ih5.manifest import IH5MFRecord
from metador_core.ih5.overlay import DEL_VALUE, IH5Dataset, h5_copy_from_to
from metador_core.ih5.record import IH5Record, IH5UserBlock, USER_BLOCK_SIZE, hashsum_file
from metador_core.schema.types import QualHashsumStr

patch_pydantic_copy()

ENCODED = [IH5Record.merge_files, h5_copy_from_to, IH5Record._fixes_after_merge, IH5MFRecord.merge_files,
           IH5MFRecord._fixes_after_merge, IH5Record._open, IH5Record.ih5_meta.fget, IH5Record._set_ublock] + C1.ENCODED[:12]

CLS = {"ih5": IH5Record, "mf": IH5MFRecord}
REC_PATH = "/d/rec"


def fs_record(uni, kinds, n):
    """Write the stack as committed containers of one record; returns the file names."""
    paths, attrs = UNIVERSES[uni]
    INST.reset()
    names, prev = [], None
    for i in range(n):
        name = REC_PATH + (".ih5" if i == 0 else ".p%d.ih5" % i)
        f = fakeh5.File(name, "x", userblock_size=USER_BLOCK_SIZE)
        have = {}
        for j, p in enumerate(paths):
            par = p.rsplit("/", 1)[0] if "/" in p else None
            if par is not None and have.get(par) not in (VIRT, SUBST):
                continue
            k = kinds[i][j]
            have[p] = k
            if k == DEL:
                f[p] = DEL_VALUE
            elif k == DS:
                f[p] = tag(i, j)
            elif k in (VIRT, SUBST):
                g = f.create_group(p)
                if k == SUBST:
                    g.attrs[SUBST_KEY] = fakeh5.Empty(None)
        for j, (p, key) in enumerate(attrs):
            if p != "/" and have.get(p) not in (DS, VIRT, SUBST):
                continue
            k = kinds[i][len(paths) + j]
            if k == A_DEL:
                f[p].attrs[key] = DEL_VALUE
            elif k == A_VAL:
                f[p].attrs[key] = tag(i, len(paths) + j)
        f.close()
        ub = IH5UserBlock.create(prev=prev)
        ub.hdf5_hashsum = QualHashsumStr(hashsum_file(FakePath(name), skip_bytes=USER_BLOCK_SIZE))
        ub.save(FakePath(name))
        prev = ub
        names.append(name)
    return names


def view(r):
    out = {"/": ("g", None, dict(r.attrs.items()))}

    def cb(name, node):
        if isinstance(node, IH5Dataset):
            out["/" + name] = ("d", node[()], dict(node.attrs.items()))
        else:
            out["/" + name] = ("g", None, dict(node.attrs.items()))

    r.visititems(cb)
    return out


def _meta(r):
    return [(str(u.record_uuid), u.patch_index, str(u.patch_uuid), str(u.prev_patch), u.hdf5_hashsum,
             repr(sorted(u.ub_exts.items()))) for u in r.ih5_meta]


FOLLOW = [("setitem", "a"), ("setitem", "a/x"), ("delitem", "a"), ("create_group", "b/c"), ("attr_set", "a"), ("attr_del", "a"),
          ("delitem", "a/x"), ("setitem", "n")]


def merge(k00: int, k01: int, k02: int, k03: int, k10: int, k11: int, k12: int, k13: int,
          k20: int, k21: int, k22: int, k23: int, k30: int, k31: int, k32: int, k33: int, fu: int) -> bool:
    """
    pre: 0 <= fu <= 7
    post: _
    """
    n, uni = SEL.get("n", 2), SEL.get("u", "ax_k")
    C = CLS[SEL.get("cls", "ih5")]
    kinds = _apply_fix(_kinds([k00, k01, k02, k03, k10, k11, k12, k13, k20, k21, k22, k23, k30, k31, k32, k33], n))
    kinds = realise(uni, kinds, n)
    if kinds is None:
        return True
    for c in range(8):
        if fu == c:
            fu = c
            break
    if "fu" in SEL and fu != SEL["fu"]:
        return True
    reach()
    return P_.native_call("vt.harness.c05", "merge_check", SEL.get("cls", "ih5"), uni, kinds, n, fu)


def merge_check(cname, uni, kinds, n, fu):
    C = CLS[cname]
    names = fs_record(uni, kinds, n)
    try:
        T = fold([fakeh5.FS[x].root for x in names])
    except Invalid:
        return True
    if C is IH5MFRecord:  # give the record a manifest: an (empty) committed patch on top
        r = C(REC_PATH, "r+")
        r.commit_patch()
        r.close()
    src = C(REC_PATH, "r")
    if view(src) != T:
        note("source view differs from fold (covered by C01)")
        return False
    meta0, snap0 = _meta(src), fakeh5.snapshot()
    mfile = src.merge_files(FakePath("/d/mrg"))
    # the source is unchanged: on disk, and as observed through the still-open object
    now = fakeh5.snapshot()
    if any(now.get(k) != v for k, v in snap0.items()):
        note("merge modified a source file")
        return False
    if view(src) != T:
        note("source view changed by merge")
        return False
    if _meta(src) != meta0:
        note(("ih5_meta of the open source changed by merge", meta0, _meta(src)))
        return False
    # the merged container is a single-container record with the same tree ...
    m = C("/d/mrg", "r")
    if len(m.ih5_files) != 1 or view(m) != T:
        note(("merged view differs", view(m), T))
        return False
    # ... identifying itself as the same record at the same patch state
    mu, su = m.ih5_meta[0], src.ih5_meta
    ok = (mu.record_uuid == su[-1].record_uuid and mu.patch_uuid == su[-1].patch_uuid and
          mu.patch_index == su[-1].patch_index and mu.prev_patch == su[0].prev_patch and mu.hdf5_hashsum is not None)
    m.close()
    src.close()
    if not ok:
        note("merged user block does not continue the chain")
        return False
    # every patch that applies to the source applies to the merged container with the same result
    s2 = C(REC_PATH, "r+")
    res = C1.apply_op(s2, FOLLOW[fu][0], FOLLOW[fu][1], None)
    s2.commit_patch()
    vsrc = view(s2)
    patch_file = str(s2.ih5_files[-1])
    s2.close()
    try:
        both = C([FakePath(str(mfile)), FakePath(patch_file)], "r")
    except ValueError as e:
        note(("patch of the source does not open on the merged container", str(e)[:200]))
        return False
    okv = view(both) == vsrc
    # merging again (merged container + follow-up patch) keeps tree and identity of the newest state
    want = both.ih5_meta[-1]
    both.merge_files(FakePath("/d/mrg2"))
    both.close()
    if not okv:
        note("patch gives a different result on the merged container")
        return False
    m2 = C("/d/mrg2", "r")
    got, v2 = m2.ih5_meta[0], view(m2)
    m2.close()
    if v2 != vsrc:
        note("second-generation merge shows a different tree")
        return False
    if (got.patch_index, got.patch_uuid, got.record_uuid) != (want.patch_index, want.patch_uuid, want.record_uuid):
        note(("second-generation merge does not identify as the newest patch state", got.patch_index, want.patch_index))
        return False
    return True


def after_refused_commit(mode_r: bool, twice: bool) -> bool:
    """
    post: _
    """
    # a refused commit (read-only record, or nothing to commit) must not make a later merge fail:
    # merging is refused only for uncommitted changes or stubs
    C = CLS[SEL.get("cls", "mf")]
    mode_r = True if mode_r else False
    twice = True if twice else False
    reach()
    with untraced():
        INST.reset()
        r = C(REC_PATH, "w")
        r["a"] = 1
        r.commit_patch()
        r.create_patch()
        r["b"] = 2
        r.commit_patch()
        if mode_r:
            r.close()
            r = C(REC_PATH, "r")
        v = view(r)
        for _ in range(2 if twice else 1):
            try:
                r.commit_patch()
                return False  # nothing to commit: must be refused
            except ValueError:
                pass
        try:
            r.merge_files(FakePath("/d/mrg"))
        except (ValueError, AssertionError) as e:
            note(("merge fails after a refused commit", type(e).__name__, str(e)[:120]))
            return False
        m = C("/d/mrg", "r")
        ok = view(m) == v and view(r) == v
        m.close()
        r.close()
        return ok


def merge_small(npatches: int, exts: bool) -> bool:
    """
    pre: 0 <= npatches <= 2
    post: _
    """
    # records built through the API with 1..3 containers (base only included): the merged record opens
    # under the same class, keeps the manifest (uuid, extensions) of the source and shows the same tree
    C = CLS[SEL.get("cls", "mf")]
    for c in range(3):
        if npatches == c:
            npatches = c
            break
    exts = True if exts else False
    reach()
    with untraced():
        INST.reset()
        r = C(REC_PATH, "w")
        r["a/x"] = 1
        r["a"].attrs["k"] = 2
        kw = {"manifest_exts": {"keep": 1}} if (exts and C is IH5MFRecord) else {}
        r.commit_patch(**kw)
        for i in range(npatches):
            r.create_patch()
            r["p%d" % i] = i
            r.commit_patch()
        v = view(r)
        r.merge_files(FakePath("/d/mrg"))
        src_manifest = getattr(r, "_manifest", None)
        r.close()
        try:
            m = C("/d/mrg", "r")
        except ValueError as e:
            note(("merged record does not open", str(e)[:160]))
            return False
        ok = view(m) == v
        if C is IH5MFRecord:
            ok = ok and m.manifest.manifest_uuid == src_manifest.manifest_uuid and m.manifest.manifest_exts == src_manifest.manifest_exts
        m.close()
        return ok


def refused_stub(patched: bool, reopened: bool) -> bool:
    """
    post: _
    """
    # a record set containing a stub is never merged (fresh stub, reopened stub, stub with a patch on top)
    patched = True if patched else False
    reopened = True if reopened else False
    reach()
    with untraced():
        INST.reset()
        r = IH5MFRecord(REC_PATH, "w")
        r["a"] = 1
        r.commit_patch()
        mfile = FakePath(str(r.ih5_files[-1]) + "mf.json")
        r.close()
        s = IH5MFRecord.create_stub(FakePath("/d/stub"), mfile)
        if reopened or patched:
            s.close()
            s = IH5MFRecord("/d/stub", "r+" if patched else "r")
            if patched:
                s["b"] = 2
                s.commit_patch()
        try:
            s.merge_files(FakePath("/d/stubmerge"))
            ok = False
        except ValueError:
            ok = True
        s.close()
        return ok


def refused(uncommitted: bool, writable_base: bool, reopened_ro: bool) -> bool:
    """
    post: _
    """
    # merging is refused while there are uncommitted changes, and leaves nothing behind that opens;
    # reopened_ro: the uncommitted container is left on disk (close without commit) and the record is
    # opened again read-only -- the changes are still uncommitted
    C = CLS[SEL.get("cls", "ih5")]
    uncommitted = True if uncommitted else False
    writable_base = True if writable_base else False
    reopened_ro = True if reopened_ro else False
    reach()
    with untraced():
        INST.reset()
        r = C(REC_PATH, "w")
        r["a"] = 1
        if not writable_base:
            r.commit_patch()
            if uncommitted:
                r.create_patch()
                r["b"] = 2
        if reopened_ro:
            r.close(commit=False)
            r = C(REC_PATH, "r")
        expect_refusal = writable_base or uncommitted
        before = sorted(fakeh5.FS)
        try:
            r.merge_files(FakePath("/d/mrg"))
            merged = True
        except ValueError:
            merged = False
        r.close(commit=False)
        if merged == expect_refusal:
            return False
        if not merged:
            return sorted(k for k in fakeh5.FS if k.startswith("/d/mrg")) == []
        return True
