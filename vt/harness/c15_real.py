"""C15, container level: closure of navigation on the REAL container stack (both drivers).

The one-step induction of vt/harness/c15.py runs the real wrapper classes on recording stand-ins
(also for the container object, so `metador.query` there is a stand-in). Here the whole stack is
real (MetadorContainer / MetadorMeta / MetadorContainerTOC.query on the in-memory substrate, plain
file or IH5Record with a patch boundary): a start node and the three flags are chosen by the solver
(symbolic, realised by branching), then every navigation primitive is applied to every node reached
so far until the set of reached (node, flags, local root) states is closed (fixpoint), and on every node reached
 * the flags include the start node's flags, and under local_only its name lies inside the start
   node's subtree; `file` is refused, `parent` never leaves the subtree, absolute paths are refused;
 * read_only: every mutating member raises and the raw store is unchanged afterwards;
 * skel_only: dataset contents, attribute values and metadata objects are never yielded.
"""
from vt.part import SEL, reach, note
import vt.part as P_

from vt.harness import cont as C
from metador_core.container.interface import NodeAcl
from metador_core.container.wrappers import MetadorDataset, MetadorGroup, MetadorNode, UnsupportedOperationError

ENCODED = list(C.ENCODED) + [MetadorNode.parent.fget, MetadorNode.file.fget, MetadorNode.restrict,
                             MetadorNode._child_node_kwargs, MetadorDataset.__getattr__, MetadorGroup.visititems]

STARTS = ["/", "g", "g/h", "g/e", "g/h/f", "container"]
REFUSED = (UnsupportedOperationError, ValueError)


def build(drvname):
    C.INST.reset()
    C._cnt[0] = 0
    drv = C.DRIVERS[drvname]()
    mc = drv.create()
    mc["d"] = 1
    mc.create_group("g")
    mc["g/e"] = 2
    mc.create_group("g/h")
    mc["g/h/f"] = 3
    for p in ("g", "g/e", "g/h", "g/h/f"):
        mc[p].attrs["k"] = 7
    mc["d"].meta["core.file"] = C.mkobj("F")
    mc["g"].meta["core.dir"] = C.mkobj("D")
    mc["g/e"].meta["core.imagefile"] = C.mkobj("I")
    mc = drv.boundary(mc)
    mc["g/h"].meta["core.dir"] = C.mkobj("D")
    mc["g/h/f"].meta["core.file"] = C.mkobj("F")
    return drv, drv.reopen(mc)


def _flags_ok(x, ro, lo, so):
    a = x.acl
    return (not ro or a[NodeAcl.read_only]) and (not lo or a[NodeAcl.local_only]) and (not so or a[NodeAcl.skel_only])


def _derive(x):
    """Every navigation primitive of the protocol applied to x: list of (how, result)."""
    out = []

    def tryadd(how, f):
        try:
            r = f()
        except REFUSED as e:
            out.append((how, e))
            return
        if isinstance(r, (list, tuple)):
            out.extend((how, y) for y in r)
        else:
            out.append((how, r))

    tryadd("parent", lambda: x.parent)
    tryadd("file", lambda: x.file)
    tryadd("restrict", lambda: x.restrict())
    for schema in ("core.file", "core.dir", "core.imagefile"):
        tryadd("query:" + schema, lambda s=schema: list(x.metador.query(s)))
    if isinstance(x, MetadorGroup):
        names = list(x.keys())
        tryadd("values", lambda: list(x.values()))
        tryadd("items", lambda: [v for _, v in x.items()])
        for k in names:
            tryadd("getitem", lambda k=k: x[k])
            tryadd("get", lambda k=k: x.get(k))
            tryadd("require_group", lambda k=k: x.require_group(k) if isinstance(x[k], MetadorGroup) else [])
        acc = []
        tryadd("visititems", lambda: (x.visititems(lambda _n, node: acc.append(node)), acc)[1])
        tryadd("abs:/d", lambda: x["/d"])
        tryadd("abs:get", lambda: x.get("/g"))
    return out


def _mutations(x):
    yield "attr_set", lambda: x.attrs.__setitem__("k", 8)
    yield "attr_new", lambda: x.attrs.__setitem__("n", 8)
    yield "attr_del", lambda: x.attrs.__delitem__("k")
    yield "attr_pop", lambda: x.attrs.pop("k")
    yield "attr_update", lambda: x.attrs.update({"u": 1})
    yield "meta_set_dir", lambda: x.meta.__setitem__("core.dir", C.mkobj("D"))
    yield "meta_set_file", lambda: x.meta.__setitem__("core.file", C.mkobj("F"))
    yield "meta_del_dir", lambda: x.meta.__delitem__("core.dir")
    yield "meta_del_file", lambda: x.meta.__delitem__("core.file")
    yield "meta_del_img", lambda: x.meta.__delitem__("core.imagefile")
    if isinstance(x, MetadorGroup):
        yield "setitem", lambda: x.__setitem__("new", 1)
        yield "create_group", lambda: x.create_group("newg")
        yield "require_group", lambda: x.require_group("newg2")
        yield "create_dataset", lambda: x.create_dataset("newd", data=1)
        yield "require_dataset", lambda: x.require_dataset("newd2", shape=(), dtype="i8")
        for k in list(x.keys()):
            yield "delitem:" + k, lambda k=k: x.__delitem__(k)
            yield "move:" + k, lambda k=k: x.move(k, "moved")
            yield "copy:" + k, lambda k=k: x.copy(k, "copied")
    else:
        yield "ds_setitem", lambda: x.__setitem__((), 9)
        yield "ds_resize", lambda: x.resize((1,))
        yield "ds_write_direct", lambda: x.write_direct(None)
        yield "ds_flush", lambda: x.flush()


def _reads(x):
    yield "attr_getitem", lambda: x.attrs["k"]
    yield "attr_get", lambda: x.attrs.get("k")
    yield "attr_values", lambda: list(x.attrs.values())
    yield "attr_items", lambda: list(x.attrs.items())
    yield "meta_get_file", lambda: x.meta.get("core.file")
    yield "meta_get_dir", lambda: x.meta.get("core.dir")
    yield "meta_getitem", lambda: x.meta["core.dir"] if "core.dir" in x.meta else x.meta["core.file"]
    yield "meta_values", lambda: list(x.meta.values())
    yield "meta_items", lambda: list(x.meta.items())
    if isinstance(x, MetadorDataset):
        yield "ds_getitem", lambda: x[()]


def _acl_key(x):
    return tuple(sorted((k.name, v) for k, v in x.acl.items()))


def closure_native(drvname, start, ro, lo, so, depth):
    drv, mc = build(drvname)
    if start == "container":  # the container object itself is restricted (in place)
        n, start = mc, "/"
    else:
        n = mc[start] if start != "/" else mc["/"]
    n = n.restrict(read_only=ro, local_only=lo, skel_only=so)

    def inside(name, root):
        return root == "/" or name == root or name.startswith(root + "/")

    EXTRA = ({"read_only": True}, {"skel_only": True}, {"local_only": True})
    seen = {}
    # frontier items: (chain, node, local root of the node or None)
    frontier = [("start", n, ("/" + start.strip("/")) if lo else None)]
    level = 0
    while frontier:  # until the set of reached (node, flags, local root) states is closed under navigation
        level += 1
        if level > 12:
            raise AssertionError("navigation closure did not saturate within 12 rounds")
        nxt = []
        for how, x, lroot in frontier:
            xa = x.acl
            xlo = xa[NodeAcl.local_only]
            cands = [(h2, y, lroot) for h2, y in _derive(x)]
            if isinstance(x, MetadorGroup):
                # a child that is restricted further (restrict() works in place on the fresh child wrapper)
                for k in list(x.keys()):
                    for extra in EXTRA:
                        c = x[k].restrict(**extra)
                        cands.append(("child+" + next(iter(extra)), c, c.name if "local_only" in extra else lroot))
            for h2, y, yroot in cands:
                chain = how + ">" + h2
                if isinstance(y, Exception):
                    if h2 in ("parent", "file") or h2.startswith("abs:"):
                        if not xlo:
                            note(("refused without local_only", chain, str(y)[:80]))
                            return False
                        continue
                    if h2 == "require_group" and xa[NodeAcl.read_only]:
                        continue  # (a mutating member: refused on read_only nodes even if the group exists)
                    note(("navigation refused", chain, type(y).__name__, str(y)[:80]))
                    return False
                if y is None and h2 in ("get", "abs:get"):
                    continue
                if h2 == "file":
                    if xlo:
                        note(("local_only node yields the container", chain, type(y).__name__))
                        return False
                    continue  # (the container itself carries no node restrictions; not among the property's read_only routes)
                if not isinstance(y, MetadorNode):
                    note(("navigation yields an unwrapped object", chain, type(y).__name__))
                    return False
                ya = y.acl
                lost = [k.name for k in xa if xa[k] and not ya[k]]
                if lost:
                    note(("flags lost", chain, y.name, lost))
                    return False
                if xlo and lroot is not None and not inside(y.name, lroot):
                    note(("local_only left its subtree", chain, y.name, lroot))
                    return False
                key = (y.name, type(y).__name__, _acl_key(y), yroot, h2.split(":")[0].split("+")[0])
                if key not in seen:
                    seen[key] = (chain, y)
                    nxt.append((chain, y, yroot))
        frontier = nxt
    # --- operations on every node reached ------------------------------------------------
    before = C.fakeh5.snapshot() if not C.REAL else None
    any_ro = False
    for key, (chain, x) in list(seen.items()) + [(None, ("start", n))]:
        xa = x.acl
        if xa[NodeAcl.skel_only]:
            for nm, f in _reads(x):
                try:
                    r = f()
                except REFUSED:
                    continue
                except KeyError:
                    continue
                if r is None and nm.startswith("meta_get"):
                    continue  # nothing attached: nothing yielded
                if nm in ("meta_values", "meta_items", "attr_values", "attr_items") and r == []:
                    continue
                note(("skel_only node yields contents", chain, nm, repr(r)[:80]))
                return False
        if xa[NodeAcl.read_only]:
            any_ro = True
            for nm, f in _mutations(x):
                try:
                    f()
                except REFUSED:
                    continue
                except (KeyError, AttributeError):
                    continue  # (nothing to delete / member absent on this raw object; the snapshot is compared below)
                note(("read_only node accepted a mutation", chain, x.name, nm))
                return False
    if any_ro and before is not None and C.fakeh5.snapshot() != before:
        note(("store changed through read_only nodes",))
        return False
    mc.close()
    return True


def closure(ro: bool, lo: bool, so: bool, s: int) -> bool:
    """
    pre: 0 <= s < 6
    post: _
    """
    flags = (True if ro else False, True if lo else False, True if so else False)
    start = None
    for i in range(len(STARTS)):
        if s == i:
            start = STARTS[i]
    reach()
    P_.sample({"driver": SEL.get("drv", "h5"), "start": start, "flags": flags})
    return P_.native_call("vt.harness.c15_real", "closure_native", SEL.get("drv", "h5"), start, flags[0], flags[1], flags[2],
                          SEL.get("depth", 2))


def meta_raw(ro: bool, lo: bool, so: bool, s: int) -> bool:
    """
    pre: 0 <= s < 5
    post: _
    """
    # MetadorMeta.values()/items() of a restricted node: no unwrapped raw node (whose .file/.parent are the
    # unrestricted raw objects) may be handed out. Kept in a partition of its own (known finding).
    flags = (True if ro else False, True if lo else False, True if so else False)
    start = None
    for i in range(len(STARTS)):
        if s == i:
            start = STARTS[i]
    reach()
    return P_.native_call("vt.harness.c15_real", "meta_raw_native", SEL.get("drv", "h5"), start, flags[0], flags[1], flags[2])


def meta_raw_native(drvname, start, ro, lo, so):
    drv, mc = build(drvname)
    n = mc[start] if start != "/" else mc["/"]
    n = n.restrict(read_only=ro, local_only=lo, skel_only=so)
    ok = True
    if ro or lo or so:
        for nm, f in (("values", lambda: list(n.meta.values())), ("items", lambda: [v for _, v in n.meta.items()])):
            try:
                vals = f()
            except REFUSED:
                continue
            for v in vals:
                raw = getattr(v, "node", None)
                if raw is not None and not isinstance(raw, MetadorNode):
                    note(("meta.%s() of a restricted node hands out a raw bookkeeping node" % nm, start, getattr(raw, "name", "?")))
                    ok = False
    mc.close()
    return ok
