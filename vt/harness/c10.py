"""C10 harness: patches built on a stub apply to the real record with the same result;
manifests stay in sync with their containers.

A symbolic container stack (kinds as in C01/C05) is written as a record on the in-memory file
system and opened as IH5MFRecord; an empty committed patch gives it a manifest. Then, from the
same on-disk state: (A) create a stub from the newest manifest, patch it, commit; (B) perform
the same existence-based update directly on the real record; (C) open the real files together
with the stub-made patch. Real code: skeleton.py, manifest.py, overlay.py, record.py.
"""
import vt.harness.c05 as C5  # installs shims + substrate
from vt.harness.c01 import UNIVERSES, realise, _kinds, _apply_fix, apply_op
from vt.harness.c05 import fs_record, view, REC_PATH
from vt.part import SEL, reach, note
import vt.part as P_
from vt.spec.fold import Invalid, fold
from vt.substrate import fakeh5
from vt.substrate.fakeh5 import FakePath

import metador_core.ih5.manifest as MF
from metador_core.ih5.manifest import IH5Manifest, IH5MFRecord, IH5UBExtManifest
from metador_core.ih5.overlay import IH5Dataset
from metador_core.ih5.record import hashsum_file
from metador_core.ih5.skeleton import IH5Skeleton, SkeletonNodeInfo, init_stub_base, init_stub_skeleton

ENCODED = [IH5Skeleton.for_record, SkeletonNodeInfo.for_node, init_stub_skeleton, init_stub_base, IH5MFRecord.create_stub,
           IH5MFRecord.commit_patch, IH5MFRecord._fresh_manifest, IH5MFRecord._open, IH5MFRecord.merge_files,
           IH5MFRecord._check_ublock, IH5Manifest.from_userblock, IH5Manifest.save, IH5UBExtManifest.get, IH5UBExtManifest.update]

# existence-based updates (no reads of data)
FOLLOW = [("create_group", "n"), ("setitem", "m"), ("delitem", "a"), ("attr_set", "a"), ("attr_del", "a"), ("delitem", "a/x"),
          ("create_group", "a/x/c"), ("setitem", "a/w"), ("create_group", "a"), ("setitem", "a"), ("attr_set", "/"), ("attr_del", "/")]


def skel_shape(rec):
    sk = IH5Skeleton.for_record(rec)
    return {p: (str(i.node_type.value if hasattr(i.node_type, "value") else i.node_type), sorted(i.attrs)) for p, i in sk.__root__.items()}


def manifest_ok(rec, label):
    """After a commit: sidecar hashes to manifest_hashsum, same uuid, describes the current skeleton."""
    newest = str(rec.ih5_files[-1])
    ub = rec.ih5_meta[-1]
    ext = IH5UBExtManifest.get(ub)
    if ext is None:
        note((label, "no manifest extension in the newest user block"))
        return False
    side = FakePath(newest + "mf.json")
    if not side.is_file():
        note((label, "manifest sidecar missing"))
        return False
    if hashsum_file(side) != ext.manifest_hashsum:
        note((label, "manifest sidecar does not hash to manifest_hashsum"))
        return False
    mf = IH5Manifest.parse_file(side)
    if mf.manifest_uuid != ext.manifest_uuid:
        note((label, "manifest uuid differs"))
        return False
    cur = IH5Skeleton.for_record(rec)
    if mf.skeleton != cur:
        note((label, "manifest skeleton differs from the record's current skeleton"))
        return False
    if rec.manifest.manifest_uuid != mf.manifest_uuid:
        note((label, "in-memory manifest differs from the sidecar"))
        return False
    return True


def stub_check(uni, kinds, n, fu):
    names = fs_record(uni, kinds, n)
    try:
        T = fold([fakeh5.FS[x].root for x in names])
    except Invalid:
        return None
    r = IH5MFRecord(REC_PATH, "r+")  # creates an (empty) patch
    r.commit_patch(manifest_exts={"keep": 1})
    if not manifest_ok(r, "after first commit"):
        return False
    r.close()
    base = fakeh5.clone_fs()
    real = IH5MFRecord(REC_PATH, "r")
    real_files = [str(f) for f in real.ih5_files]
    real_skel = skel_shape(real)
    if view(real) != T:
        note("real view differs from fold")
        return False
    mfile = FakePath(real_files[-1] + "mf.json")
    real.close()

    # (A) stub + patch on the stub
    stub = IH5MFRecord.create_stub(FakePath("/d/stub"), mfile)
    if skel_shape(stub) != real_skel:
        note(("stub skeleton differs", skel_shape(stub), real_skel))
        return False
    for p, (kind, ats) in real_skel.items():
        node = stub[p]
        if kind == "dataset" and not isinstance(node[()], fakeh5.Empty):
            note(("stub exposes data", p))
            return False
        for a in ats:
            if not isinstance(node.attrs[a], fakeh5.Empty):
                note(("stub exposes attribute value", p, a))
                return False
    try:
        stub.merge_files(FakePath("/d/stubmerge"))
        note("merge of a stub was not refused")
        return False
    except ValueError:
        pass
    stub.close()
    s = IH5MFRecord("/d/stub", "r+")
    res_stub = apply_op(s, FOLLOW[fu][0], FOLLOW[fu][1], None)
    s.commit_patch()
    if IH5Manifest.parse_file(FakePath(str(s.ih5_files[-1]) + "mf.json")).manifest_exts != {"keep": 1}:
        note("manifest extensions not inherited by the stub-made patch")
        return False
    patch_name = str(s.ih5_files[-1])
    s.close()
    patch_store = fakeh5.clone_fs()[patch_name]
    patch_side = bytes(fakeh5.FS[patch_name + "mf.json"])

    # (B) the same update directly on the real record
    fakeh5.restore_fs(base)
    d = IH5MFRecord(REC_PATH, "r+")
    res_direct = apply_op(d, FOLLOW[fu][0], FOLLOW[fu][1], None)
    d.commit_patch()
    if not manifest_ok(d, "after direct patch"):
        return False
    if d.manifest.manifest_exts != {"keep": 1}:
        note("manifest extensions did not persist")
        return False
    v_direct = view(d)
    skel_direct = skel_shape(d)
    d.create_patch()
    d.commit_patch(manifest_exts={"other": 2})
    if d.manifest.manifest_exts != {"other": 2}:
        note("manifest extensions not overridden")
        return False
    d.close()
    if res_stub[0] != res_direct[0]:
        note(("update succeeds on one and fails on the other", res_stub, res_direct))
        return False

    # (C) the stub-made patch is accepted as the next patch of the real record, same result
    fakeh5.restore_fs(base)
    target = REC_PATH + ".p%d.ih5" % (len(real_files))
    fakeh5.restore_fs(dict(fakeh5.clone_fs(), **{target: patch_store}))
    fakeh5.FS[target + "mf.json"] = bytearray(patch_side)
    try:
        both = IH5MFRecord(REC_PATH, "r")
    except ValueError as e:
        note(("stub-made patch is not accepted by the real record", str(e)[:200]))
        return False
    ok = len(both.ih5_files) == len(real_files) + 1 and skel_shape(both) == skel_direct
    vb = view(both)
    both.close()
    if not ok:
        note(("patched real record differs structurally from the direct update",))
        return False
    # data of untouched nodes comes from the real record; new datasets carry the written value
    if {p: (k, a) for p, (k, v, a) in vb.items()} != {p: (k, a) for p, (k, v, a) in v_direct.items()} or vb != v_direct:
        note(("patched real record differs from the direct update", vb, v_direct))
        return False
    return True


def stub(k00: int, k01: int, k02: int, k03: int, k10: int, k11: int, k12: int, k13: int,
         k20: int, k21: int, k22: int, k23: int, k30: int, k31: int, k32: int, k33: int, fu: int) -> bool:
    """
    pre: 0 <= fu <= 11
    post: _
    """
    n, uni = SEL.get("n", 2), SEL.get("u", "ax_k")
    kinds = _apply_fix(_kinds([k00, k01, k02, k03, k10, k11, k12, k13, k20, k21, k22, k23, k30, k31, k32, k33], n))
    kinds = realise(uni, kinds, n)
    if kinds is None:
        return True
    if "fu" in SEL:
        if fu != SEL["fu"]:
            return True
        fu = SEL["fu"]
    else:
        for c in range(12):
            if fu == c:
                fu = c
                break
    r = P_.native_call("vt.harness.c10", "stub_check", uni, kinds, n, fu)
    if r is None:
        return True
    reach()
    return r


def exts_history(a1: int, a2: int, a3: int, tamper: bool) -> bool:
    """
    pre: 0 <= a1 < 9 and 0 <= a2 < 9 and 0 <= a3 < 9
    post: _
    """
    # (S4) over histories with interrupted patches, discards and reopens (vt/mfhist.py): the manifest of the
    # last commit stays available, extensions persist until overridden, sidecar == container after every
    # commit; tamper: an edited sidecar of the newest committed container is refused under an uncommitted patch
    from vt import mfhist
    acts = []
    for a in (a1, a2, a3):
        for c in range(len(mfhist.ACTS)):
            if a == c:
                acts.append(mfhist.ACTS[c])
    tamper = True if tamper else False
    reach()
    P_.sample({"acts": acts, "tamper": tamper})
    return P_.native_call("vt.harness.c10", "exts_native", acts, tamper)


def exts_native(acts, tamper):
    from vt import mfhist
    C5.INST.reset()
    notes = []
    ok = mfhist.run(IH5MFRecord, IH5Manifest, IH5UBExtManifest, hashsum_file, FakePath, fakeh5.fake_open, REC_PATH, acts, tamper, notes)
    for n_ in notes:
        note(n_)
    return ok
