"""C14 harnesses: partial-model merge monoid (real PartialModel/PartialFactory/PartialSchemas).

Instances are created with `construct` (a real pydantic constructor that skips validation), so
field values stay CrossHair-symbolic through `merge_with/_update_field/merge/cast/to_partial`.
Nested values come in the two shapes real code produces: a *complete* model instance (what
`to_partial(obj)` yields) and a *partial* instance (what `parse_obj` yields) -- `shapes()` checks
natively that this is indeed what the real constructors produce.
"""
import vt.shims  # noqa: F401
from vt.shims import patch_pydantic_copy
from vt.part import SEL, reach
import vt.part as P_

from typing import List, Optional, Set

from metador_core.schema.core import MetadataSchema, PartialSchemas
from metador_core.schema.decorators import add_const_fields
from metador_core.schema.partial import PartialFactory, PartialModel, val_from_partial
from metador_core.schema.types import Bool, Int, Str

patch_pydantic_copy()

import metador_core.schema.partial as _PMOD

# stub: the conflict error message formats both values with repr(); CrossHair's symbolic
# int/str repr forks once per digit/character (unbounded). Formatting is not the subject.
_PMOD.repr = lambda v: "<value>"

ENCODED = [
    PartialModel._update_field, PartialModel.merge_with, PartialModel.merge, PartialModel.cast,
    PartialModel.to_partial, PartialModel.from_partial, PartialFactory._get_field_vals,
    PartialSchemas._get_field_vals, PartialFactory.get_partial, val_from_partial,
]


class Inner(MetadataSchema):
    n: Optional[Int]
    t: Optional[Str]


class InnerSub(Inner):
    z: Optional[Int]


@add_const_fields({"kind": "m"})
class M(MetadataSchema):
    i: Optional[Int]
    b: Optional[Bool]
    s: Optional[Str]
    l: List[Int] = []
    st: Set[Int] = set()
    sub: Optional[Inner]
    rec: Optional["M"]


M.update_forward_refs()
PM = M.Partial
PI = Inner.Partial
PIS = InnerSub.Partial

NONE, COMPLETE, PARTIAL, COMPLETE_SUB, PARTIAL_SUB = 0, 1, 2, 3, 4


def mk_inner(kind, n, z=None):
    if kind == NONE:
        return None
    d = {}
    if n is not None:
        d["n"] = n
    if kind == COMPLETE:
        return Inner.construct(**d)
    if kind == PARTIAL:
        return PI.construct(**d)
    if z is not None:
        d["z"] = z
    return InnerSub.construct(**d) if kind == COMPLETE_SUB else PIS.construct(**d)


def mk(i=None, b=None, s=None, l=None, st=None, sub=None, rec=None):
    d = {}
    for k, v in (("i", i), ("b", b), ("s", s), ("l", l), ("st", st), ("sub", sub), ("rec", rec)):
        if v is not None:
            d[k] = v
    return PM.construct(**d)


def norm(p):
    """Class-independent normal form: public non-None fields; nested models as dicts."""
    if p is None:
        return None
    out = {}
    for k, v in p.__dict__.items():
        if k.startswith("_") or v is None or k == "kind":
            continue
        if isinstance(v, (MetadataSchema,)) or isinstance(v, PartialModel):
            out[k] = norm(v)
        elif isinstance(v, list):
            out[k] = [x for x in v]
        elif isinstance(v, (set, frozenset)):
            out[k] = set(x for x in v)
        else:
            out[k] = v
    return out


class Conflict(Exception):
    pass


def spec_merge(x, y, ow):
    """Reference semantics written from the property / the module docstring."""
    out = dict(x)
    for k, v in y.items():
        if k not in out:
            out[k] = v
        elif isinstance(out[k], list):
            out[k] = out[k] + v
        elif isinstance(out[k], set):
            out[k] = out[k] | v
        elif isinstance(out[k], dict):
            out[k] = spec_merge(out[k], v, ow)
        elif ow:
            out[k] = v
        else:
            raise Conflict(k)
    return out


def _merge(x, y, ow):
    try:
        return ("ok", x.merge_with(y, allow_overwrite=ow))
    except ValueError:
        return ("conflict", None)


def _spec(nx, ny, ow):
    try:
        return ("ok", spec_merge(nx, ny, ow))
    except Conflict:
        return ("conflict", None)


def merge2(xi: Optional[int], xl: Optional[List[int]], xn: Optional[int],
           yi: Optional[int], yl: Optional[List[int]], yn: Optional[int], ow: bool) -> bool:
    """
    pre: (xl is None or len(xl) <= 2) and (yl is None or len(yl) <= 2)
    post: _
    """
    # atomic int + list + nested model (kinds of the nested values: SEL kx, ky)
    kx, ky = SEL.get("kx", 0), SEL.get("ky", 0)
    x = mk(i=xi, l=xl, sub=mk_inner(kx, xn))
    y = mk(i=yi, l=yl, sub=mk_inner(ky, yn))
    return _check2(x, y, ow)


def atoms2(xi: Optional[int], xb: Optional[bool], xs: Optional[str],
           yi: Optional[int], yb: Optional[bool], ys: Optional[str], ow: bool) -> bool:
    """
    pre: (xs is None or len(xs) <= 2) and (ys is None or len(ys) <= 2)
    post: _
    """
    return _check2(mk(i=xi, b=xb, s=xs), mk(i=yi, b=yb, s=ys), ow)


def _check2(x, y, ow):
    nx, ny = norm(x), norm(y)
    reach()
    tag, r = _merge(x, y, ow)
    stag, sr = _spec(nx, ny, ow)
    if norm(x) != nx or norm(y) != ny:
        return False  # operand mutated
    if tag != stag:
        return False
    return tag == "conflict" or norm(r) == sr


def identity(xi: Optional[int], xb: Optional[bool], xs: Optional[str], xl: Optional[List[int]],
             xst: Optional[Set[int]], xn: Optional[int], ow: bool) -> bool:
    """
    pre: (xs is None or len(xs) <= 2) and (xl is None or len(xl) <= 2) and (xst is None or len(xst) <= 2)
    post: _
    """
    kx = SEL.get("kx", 0)
    x = mk(xi, xb, xs, xl, xst, mk_inner(kx, xn))
    nx = norm(x)
    reach()
    l = PM().merge_with(x, allow_overwrite=ow)
    r = x.merge_with(PM(), allow_overwrite=ow)
    m = PM.merge(PM(), x, PM(), allow_overwrite=ow)
    return norm(l) == nx and norm(r) == nx and norm(m) == nx and norm(x) == nx and norm(PM.merge()) == {}


def sets2(xa: Optional[Set[int]], ya: Optional[Set[int]], ow: bool) -> bool:
    """
    pre: (xa is None or len(xa) <= 2) and (ya is None or len(ya) <= 2)
    post: _
    """
    x, y = mk(st=xa), mk(st=ya)
    nx, ny = norm(x), norm(y)
    reach()
    tag, r = _merge(x, y, ow)
    stag, sr = _spec(nx, ny, ow)
    return tag == stag == "ok" and norm(r) == sr and norm(x) == nx and norm(y) == ny


def assoc(ai: Optional[int], al: Optional[List[int]], an: Optional[int],
          bi: Optional[int], bl: Optional[List[int]], bn: Optional[int],
          ci: Optional[int], cl: Optional[List[int]], cn: Optional[int], ow: bool) -> bool:
    """
    pre: (al is None or len(al) <= 1) and (bl is None or len(bl) <= 1) and (cl is None or len(cl) <= 1)
    post: _
    """
    ka, kb, kc = SEL.get("ka", 0), SEL.get("kb", 0), SEL.get("kc", 0)
    flds = SEL.get("fields", "iln")  # which fields are free in this partition
    if "i" not in flds and not (ai is None and bi is None and ci is None):
        return True
    if "l" not in flds and not (al is None and bl is None and cl is None):
        return True
    if "n" not in flds and not (an is None and bn is None and cn is None):
        return True
    a = mk(i=ai, l=al, sub=mk_inner(ka, an))
    b = mk(i=bi, l=bl, sub=mk_inner(kb, bn))
    c = mk(i=ci, l=cl, sub=mk_inner(kc, cn))
    na, nb, nc = norm(a), norm(b), norm(c)
    reach()
    t1, ab = _merge(a, b, ow)
    left = _merge(ab, c, ow) if t1 == "ok" else ("conflict", None)
    t2, bc = _merge(b, c, ow)
    right = _merge(a, bc, ow) if t2 == "ok" else ("conflict", None)
    try:
        m = ("ok", PM.merge(a, b, c, allow_overwrite=ow))
    except ValueError:
        m = ("conflict", None)
    if (norm(a), norm(b), norm(c)) != (na, nb, nc):
        return False
    if left[0] != right[0] or left[0] != m[0]:
        return False
    if left[0] == "conflict":
        return True
    return norm(left[1]) == norm(right[1]) == norm(m[1])


def falsy(which: int, side: bool, ow: bool) -> bool:
    """
    pre: 0 <= which <= 5
    post: _
    """
    # every falsy-but-provided value survives a merge with the empty partial on either side
    vals = [("i", 0), ("b", False), ("s", ""), ("l", []), ("st", set()), ("sub", PI.construct())]
    k, v = vals[which]
    x = PM.construct(**{k: v})
    reach()
    r = x.merge_with(PM(), allow_overwrite=ow) if side else PM().merge_with(x, allow_overwrite=ow)
    got = r.__dict__.get(k)
    return got is not None and (norm(got) == {} if k == "sub" else got == v)


def subclass_chain(xn: Optional[int], xz: Optional[int], yn: Optional[int], yz: Optional[int], ow: bool) -> bool:
    """
    post: _
    """
    # nested values from an inheritance chain (Inner < InnerSub), partial or complete instances
    kx, ky = SEL.get("kx", COMPLETE), SEL.get("ky", COMPLETE_SUB)
    x, y = mk(sub=mk_inner(kx, xn, xz)), mk(sub=mk_inner(ky, yn, yz))
    nx, ny = norm(x), norm(y)
    reach()
    tag, r = _merge(x, y, ow)
    stag, sr = _spec(nx, ny, ow)
    if norm(x) != nx or norm(y) != ny or tag != stag:
        return False
    return tag == "conflict" or norm(r) == sr


def roundtrip(i: Optional[int], b: Optional[bool], s: Optional[str], l: List[int], n: Optional[int],
              has_sub: bool) -> bool:
    """
    pre: (s is None or (1 <= len(s) <= 2 and s == s.strip())) and len(l) <= 2
    post: _
    """
    # (metador's Str type is a non-empty string: documented validity predicate)
    # from_partial(to_partial(x)) == x for complete objects (pure-Python pydantic build:
    # values stay symbolic through validation)
    sub = Inner.construct(n=n, t=None) if has_sub else None
    x = M.construct(i=i, b=b, s=s, l=l, st=set(), sub=sub, rec=None, kind="m")
    reach()
    p = PM.to_partial(x)
    back = p.from_partial()
    if type(back) is not M:
        return False
    return (back.i == i and back.b == b and back.s == s and back.l == l and back.st == set()
            and back.kind == "m" and back.rec is None
            and ((back.sub is None) if not has_sub else (back.sub is not None and back.sub.n == n and back.sub.t is None)))


def cast_types(xn: Optional[int], xz: Optional[int], yn: Optional[int], ow: bool) -> bool:
    """
    post: _
    """
    # merging / casting across an inheritance chain of partial classes: the class asked for is the
    # class obtained (Child.Partial.merge(parent_partial, child_partial) is a Child.Partial)
    a = mk_inner(PARTIAL, xn)            # Inner.Partial
    b = mk_inner(PARTIAL_SUB, yn, xz)    # InnerSub.Partial
    reach()
    if PI.cast(b) is not b:              # a child partial already is a parent partial
        return False
    c = PIS.cast(a)
    if not isinstance(c, PIS) or norm(c) != norm(a):
        return False
    try:
        r = PIS.merge(a, b, allow_overwrite=ow)
    except ValueError:
        return (not ow) and xn is not None and yn is not None
    if not isinstance(r, PIS):
        return False
    exp = _spec(norm(a), norm(b), ow)
    if exp[0] != "ok" or norm(r) != exp[1]:
        return False
    back = r.from_partial()
    return type(back) is InnerSub and back.z == xz


def cast_merged(an: Optional[int], bt: bool, cn: Optional[int], cz: Optional[int], ow: bool) -> bool:
    """
    post: _
    """
    # the RESULT of a merge is a partial like any other: casting it to the partial class of a subclass
    # keeps every value, and merging across partial classes of an inheritance chain is associative:
    # Sub.merge(c, Parent.merge(a, b)) == Sub.merge(Sub.merge(c, a), b)
    a = mk_inner(PARTIAL, an)                              # Inner.Partial(n=an)
    b = PI.construct(**({"t": "t"} if bt else {}))         # Inner.Partial(t=...)
    c = mk_inner(PARTIAL_SUB, cn, cz)                      # InnerSub.Partial(n=cn, z=cz)
    na, nb, nc = norm(a), norm(b), norm(c)
    reach()
    ab = PI.merge(a, b, allow_overwrite=ow)                # disjoint fields: never a conflict
    sab = _spec(na, nb, ow)
    if sab[0] != "ok" or norm(ab) != sab[1]:
        return False
    cc = PIS.cast(ab)
    if not isinstance(cc, PIS) or norm(cc) != sab[1] or norm(ab) != sab[1]:
        return False
    exp = _spec(nc, sab[1], ow)
    try:
        right = ("ok", PIS.merge(c, ab, allow_overwrite=ow))
    except ValueError:
        right = ("conflict", None)
    try:
        left = ("ok", PIS.merge(PIS.merge(c, a, allow_overwrite=ow), b, allow_overwrite=ow))
    except ValueError:
        left = ("conflict", None)
    if (norm(a), norm(b), norm(c)) != (na, nb, nc):
        return False
    if left[0] != exp[0] or right[0] != exp[0]:
        return False
    if exp[0] == "conflict":
        return True
    if not isinstance(right[1], PIS) or not isinstance(left[1], PIS):
        return False
    return norm(left[1]) == exp[1] and norm(right[1]) == exp[1]


def shapes(dummy: bool) -> bool:
    """
    post: _
    """
    # the stand-in shapes used by the other harnesses are what the real constructors produce
    # (parse_obj -> nested partial instances, to_partial -> nested complete instances), constants
    # are ignored by merges, partial classes mirror inheritance
    reach()
    a = PM.parse_obj({"sub": {"n": 1}})
    if type(a.sub) is not PI:
        return False
    b = PM.to_partial(M(sub=Inner(n=1)))
    if type(b.sub) is not Inner:
        return False
    if norm(a) != {"sub": {"n": 1}} or norm(b)["sub"] != {"n": 1}:
        return False
    if norm(mk(1, True, "x", [1], {2}, mk_inner(PARTIAL, 3))) != \
            norm(PM.parse_obj({"i": 1, "b": True, "s": "x", "l": [1], "st": [2], "sub": {"n": 3}})):
        return False
    c = PM.parse_obj({"kind": "zzz", "i": 1})
    if "kind" in dict(PartialSchemas._get_field_vals(c)):
        return False
    # parsed and converted operands merge alike, in both directions
    x, y = PM.parse_obj({"i": 1, "sub": {"n": 1}}), PM.to_partial(M(l=[5], sub=Inner(t="q")))
    if norm(x.merge_with(y)) != {"i": 1, "l": [5], "st": set(), "sub": {"n": 1, "t": "q"}}:
        return False
    if norm(y.merge_with(x)) != {"i": 1, "l": [5], "st": set(), "sub": {"n": 1, "t": "q"}}:
        return False
    return issubclass(PIS, PI)
