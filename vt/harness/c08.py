"""C08 harnesses: the reserved metador_* namespace is invisible and untouchable.

Real MetadorGroup wrappers (container/wrappers.py) around a *recording* raw group: every call
that reaches the raw object is logged, so "rejected without effect" is checked as "raised and
the raw object saw nothing". Path arguments are structured symbolic strings
`[pre "/"] "metador_" rest` (free parts bounded), child names in listings are symbolic too.
"""
import vt.shims  # noqa: F401
from vt.part import SEL, reach, note
import inspect

from metador_core.container import utils as M
from metador_core.container.interface import NodeAcl
from metador_core.container.wrappers import (MetadorContainer, MetadorDataset, MetadorGroup, MetadorNode,
                                             UnsupportedOperationError, _wrap_method)
from metador_core.util import types as T

ENCODED = [MetadorNode._guard_path, _wrap_method, MetadorGroup.__setitem__, MetadorGroup.__delitem__,
           MetadorGroup.__contains__, MetadorGroup.move, MetadorGroup.copy, MetadorGroup.visititems, MetadorGroup.visit,
           MetadorGroup.items, MetadorGroup.keys, MetadorGroup.values, MetadorGroup.__iter__, MetadorGroup.__len__,
           MetadorGroup.__getattr__, M.is_internal_path, M.is_meta_base_path, M.to_meta_base_path, M.to_data_node_path]


class RawDs:
    def __init__(self, name):
        self.name = name
        self.attrs = {}
        self.ndim = 0

    parent = None
    file = None

    def __getitem__(self, k):
        return 0

    def __setitem__(self, k, v):
        pass


class RawGrp:
    """Recording raw group with association-list children (names are never hashed)."""

    def __init__(self, name, children=()):
        self.name = name
        self._ch = list(children)
        self.attrs = {}
        self.calls = []

    parent = None
    file = None

    def _log(self, what):
        self.calls.append(what)

    def items(self):
        return [(k, v) for k, v in self._ch]

    def keys(self):
        return [k for k, _ in self._ch]

    def values(self):
        return [v for _, v in self._ch]

    def __iter__(self):
        return iter(self.keys())

    def __len__(self):
        return len(self._ch)

    def __reversed__(self):  # (h5py.Group has it; wrapt forwards special methods looked up on the type)
        return reversed(self.keys())

    def __contains__(self, k):
        self._log("__contains__")
        return any(k == n for n, _ in self._ch)

    def __getitem__(self, k):
        self._log("__getitem__")
        for n, v in self._ch:
            if n == k:
                return v
        raise KeyError(k)

    def get(self, k, d=None):
        self._log("get")
        for n, v in self._ch:
            if n == k:
                return v
        return d

    def __setitem__(self, k, v):
        self._log("__setitem__")

    def __delitem__(self, k):
        self._log("__delitem__")

    def visititems(self, f):
        def rec(g, pre):
            for n, v in g._ch:
                r = f(pre + n, v)
                if r is not None:
                    return r
                if isinstance(v, RawGrp):
                    r = rec(v, pre + n + "/")
                    if r is not None:
                        return r
        return rec(self, "")

    def visit(self, f):
        return self.visititems(lambda n, _: f(n))

    def create_group(self, p):
        self._log("create_group")

    def require_group(self, p):
        self._log("require_group")

    def create_dataset(self, p, *a, **k):
        self._log("create_dataset")

    def require_dataset(self, p, *a, **k):
        self._log("require_dataset")

    def move(self, a, b):
        self._log("move")

    def copy(self, a, b, **k):
        self._log("copy")


def path_methods():
    """Every member of the group protocol / public callable of MetadorGroup whose first
    parameter is a path or name (discovered at run time, so a new method is picked up)."""
    names = set()
    for cls in (T.H5GroupLike, MetadorGroup):
        for name, val in inspect.getmembers(cls, callable):
            if name.startswith("_") and not (name.startswith("__") and name.endswith("__")):
                continue
            if name in ("__init__", "__class__", "__init_subclass__", "__subclasshook__", "__new__", "__class_getitem__",
                        "__dir__", "__format__", "__reduce_ex__", "__reduce__", "__sizeof__", "__getattribute__",
                        "__getattr__", "__setattr__", "__delattr__", "__repr__", "__str__", "__eq__", "__ne__", "__hash__",
                        "__lt__", "__le__", "__gt__", "__ge__", "__bool__", "__copy__", "__deepcopy__", "__enter__", "__exit__"):
                continue
            try:
                params = list(inspect.signature(val).parameters)
            except (TypeError, ValueError):
                continue
            if len(params) >= 2 and params[1] in ("name", "path", "source", "key", "obj", "dest"):
                names.add(name)
    return sorted(names)


MUTATING = {"__setitem__", "__delitem__", "create_group", "require_group", "create_dataset", "require_dataset", "move", "copy"}
METHODS = path_methods()
TWO_PATH = {"move", "copy"}
EXPECTED_METHODS = {"__contains__", "__delitem__", "__getitem__", "__setitem__", "copy", "create_dataset", "create_group",
                    "get", "move", "require_dataset", "require_group"}


def _call(g, m, p, other):
    fn = getattr(g, m)
    if m == "copy" and SEL.get("pos", 0) == 2:  # destination given as a group object + name= keyword
        return fn(other, g["h"], name=p)
    if m in TWO_PATH:
        return fn(p, other) if SEL.get("pos", 0) == 0 else fn(other, p)
    if m == "__setitem__":
        return fn(p, 1)
    if m in ("create_dataset", "require_dataset"):
        return fn(p, data=1)
    return fn(p)


def guard(pre: str, rest: str, nested: bool, absolute: bool, tail: bool, ro: bool, lo: bool, so: bool) -> bool:
    """
    pre: len(pre) <= 2 and len(rest) <= 2
    post: _
    """
    # SEL m: method name; pos: position of the reserved path for two-path methods
    m = SEL.get("m", "__getitem__")
    if "/" in pre:
        return True
    p = ("/" if absolute else "") + ((pre + "/") if nested else "") + "metador_" + rest + ("/x" if tail else "")
    raw = RawGrp("/g", [("d", RawDs("/g/d")), ("h", RawGrp("/g/h"))])
    g = MetadorGroup(None, raw, read_only=ro, local_only=lo, skel_only=so)
    reach()
    try:
        _call(g, m, p, "d")
    except (ValueError, UnsupportedOperationError):
        # rejected without effect: nothing mutating reached the raw object
        # (with the reserved path first, nothing at all may reach it)
        if any(c in MUTATING for c in raw.calls):
            return False
        return raw.calls == [] or (m in TWO_PATH and SEL.get("pos", 0) >= 1)
    note(("reserved path accepted", m, p))
    return False


def methods_known(x: bool) -> bool:
    """
    post: _
    """
    # the protocol enumeration finds exactly the methods the guard partitions cover
    reach()
    return set(METHODS) == EXPECTED_METHODS


def listing(f1: str, f2: str, probe: str, rp: bool) -> bool:
    """
    pre: len(f1) <= 1 and len(f2) <= 1 and len(probe) <= 1
    post: _
    """
    # two children whose names are reserved ("metador_"+f) or from a near-miss family (SEL fam),
    # free part symbolic; plus a concrete sub-group holding a reserved and a user node
    fam = SEL.get("fam", "")
    r1, r2 = bool(SEL.get("r1", 0)), bool(SEL.get("r2", 0))
    for s_ in (f1, f2, probe):
        if "/" in s_:
            return True
    n = [("metador_" + f1) if r1 else fam + f1, ("metador_" + f2) if r2 else fam + f2]
    if n[0] == "" or n[1] == "" or n[0] == n[1] or n[0] == "sub" or n[1] == "sub":
        return True
    sub = RawGrp("/g/sub", [("metador_q", RawDs("/g/sub/metador_q")), ("u", RawDs("/g/sub/u")),
                            ("metador_meta_", RawGrp("/g/sub/metador_meta_", [("o", RawDs("/g/sub/metador_meta_/o"))]))])
    raw = RawGrp("/g", [(n[0], RawDs("/g/" + n[0])), (n[1], RawDs("/g/" + n[1])), ("sub", sub)])
    g = MetadorGroup(None, raw)
    res = [nm.startswith("metador_") for nm in n]  # (a near-miss prefix + free part can be reserved again)
    exp = [nm for nm, r_ in zip(n, res) if not r_] + ["sub"]
    reach()
    seen, seen_nodes = [], []
    g.visit(lambda nm: seen.append(nm))
    g.visititems(lambda nm, node: seen_nodes.append(node.name))
    exp_visit = list(exp) + ["sub/u"]
    ok = (list(g.keys()) == exp and len(g) == len(exp) and [k for k, _ in g.items()] == exp and [k for k in g] == exp
          and [v.name for v in g.values()] == ["/g/" + e for e in exp]
          and sorted(seen) == sorted(exp_visit) and sorted(seen_nodes) == sorted("/g/" + e for e in exp_visit))
    if not ok:
        return False
    try:
        rv = list(reversed(g))
    except (TypeError, UnsupportedOperationError):
        rv = None  # (refusing is fine)
    if rv is not None and rv != exp[::-1]:
        note(("reversed() exposes", rv))
        return False
    pn = ("metador_" + probe) if rp else fam + probe
    if pn == "":
        return True
    rpn = pn.startswith("metador_")
    try:
        c = pn in g
        return (not rpn) and c == (pn in exp)
    except ValueError:
        return rpn


def algebra(p: str, is_ds: bool) -> bool:
    """
    pre: 1 <= len(p) <= 5
    post: _
    """
    # canonical user paths: absolute, no empty/dot segments, no reserved segment
    if p[0] != "/" or (len(p) > 1 and p[-1] == "/") or "//" in p:
        return True
    if M.is_internal_path(p):
        return True
    if p == "/" and is_ds:
        return True
    reach()
    mp = M.to_meta_base_path(p, is_ds)
    return (M.to_data_node_path(mp) == p and M.is_internal_path(mp) and M.is_meta_base_path(mp)
            and (p == "/" or M.to_meta_base_path(p, not is_ds) != mp))


PRES = ["", "/", "a/", "/a/", "a/b/", "metador/"]
FAMS = ["", "metador_", "metador", "xmetador_", "Metador_", "_metador_", "metador_meta_"]


def internal(free: str, post: str) -> bool:
    """
    pre: len(free) <= 2 and len(post) <= 3
    post: _
    """
    # is_internal_path(p) <=> some segment starts with "metador_"
    p = PRES[SEL.get("pre", 0)] + FAMS[SEL.get("fam", 0)] + free + post
    reach()
    want = False
    for s_ in p.split("/"):
        if s_.startswith("metador_"):
            want = True
    return M.is_internal_path(p) == want


def unsupported(i: int) -> bool:
    """
    pre: 0 <= i < 40
    post: _
    """
    # attributes of h5py.Group outside the supported protocol are refused, not passed through
    import h5py

    names = sorted(n for n in dir(h5py.Group) if not n.startswith("_") and n not in dir(MetadorGroup))
    if i >= len(names):
        return True
    raw = h5py.Group.__new__(h5py.Group) if False else _FakeH5Group()
    g = MetadorGroup(None, raw)
    reach()
    try:
        getattr(g, names[i])
        return False
    except UnsupportedOperationError:
        return True


class _FakeH5Group(RawGrp):
    """Raw group that *has* every public attribute of h5py.Group (so hasattr() is true)."""

    def __init__(self):
        super().__init__("/g")

    def __getattr__(self, k):
        import h5py
        if not k.startswith("_") and hasattr(h5py.Group, k):
            return lambda *a, **kw: None
        raise AttributeError(k)
