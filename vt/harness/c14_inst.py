"""C14 on installed schemas (real MetadataSchema / PartialSchemas classes, native after realisation).

The generated model classes of vt/harness/c14.py exercise the merge algebra symbolically; this module adds
the ways the *library* produces partials of installed schemas: complete objects built from plugin handles
(with and without stated version -- the latter is what interactive use and harvesters get), converted with
to_partial, merged with partials parsed from dicts; nested objects must be merged recursively, nothing may be
dropped, identity and round trip hold.
"""
import vt.npshim  # noqa: F401
from vt.part import SEL, reach, note
import vt.part as P_

import metador_core.schema.partial as PM
from metador_core.schema.core import PartialSchemas

ENCODED = [PM.PartialModel.merge_with, PM.PartialModel._update_field, PM.PartialModel.to_partial, PM.PartialModel.from_partial,
           PM.PartialFactory.get_partial, PartialSchemas._create_partial]


def nested_native(versionless, order, ow):
    import json
    from metador_core.plugins import schemas

    Instr = schemas.get("example.matsci.instrument", (0, 1, 0))
    Org = schemas["core.org"] if versionless else schemas.get("core.org", (0, 1, 0))
    obj = Instr(instrumentName="i", instrumentModel="m", instrumentManufacturer=Org(name="ACME"))
    a = Instr.Partial.to_partial(obj)
    b = Instr.Partial.parse_obj({"instrumentManufacturer": {"url": "http://x.org"}})
    x, y = (a, b) if order else (b, a)
    try:
        m = x.merge_with(y, allow_overwrite=ow)
    except ValueError as e:
        note(("merge of partials with disjoint nested fields raised", str(e).splitlines()[0][:120]))
        return False
    d = {k: v for k, v in json.loads(m.instrumentManufacturer.json()).items() if not k.startswith("@")}
    if d != {"name": "ACME", "url": "http://x.org"}:
        note(("nested object not merged recursively", d))
        return False
    # identity and round trip of the complete object
    E = Instr.Partial()
    if E.merge_with(a) != a or a.merge_with(E) != a:
        note(("empty partial is not an identity",))
        return False
    if a.from_partial() != obj:
        note(("round trip complete -> partial -> complete differs",))
        return False
    return True


def nested(versionless: bool, order: bool, ow: bool) -> bool:
    """
    post: _
    """
    v = (True if versionless else False, True if order else False, True if ow else False)
    reach()
    P_.sample({"versionless": v[0], "order": v[1], "ow": v[2]})
    return P_.native_call("vt.harness.c14_inst", "nested_native", v[0], v[1], v[2])
