"""C14 on installed schemas (real MetadataSchema / PartialSchemas classes, native after realisation).

The generated model classes of vt/harness/c14.py exercise the merge algebra symbolically; this module adds
the ways the *library* produces partials of installed schemas: complete objects built from plugin handles
(with and without stated version -- the latter is what interactive use and harvesters get), converted with
to_partial, merged with partials parsed from dicts; nested objects must be merged recursively, nothing may be
dropped, identity and round trip hold.
"""
import vt.npshim  # noqa: F401
from vt.part import SEL, reach, note
import vt.part as P_

import metador_core.schema.partial as PM
from metador_core.schema.core import PartialSchemas

ENCODED = [PM.PartialModel.merge_with, PM.PartialModel._update_field, PM.PartialModel.to_partial, PM.PartialModel.from_partial,
           PM.PartialFactory.get_partial, PartialSchemas._create_partial]


def nested_native(versionless, order, ow):
    import json
    from metador_core.plugins import schemas

    Instr = schemas.get("example.matsci.instrument", (0, 1, 0))
    Org = schemas["core.org"] if versionless else schemas.get("core.org", (0, 1, 0))
    obj = Instr(instrumentName="i", instrumentModel="m", instrumentManufacturer=Org(name="ACME"))
    a = Instr.Partial.to_partial(obj)
    b = Instr.Partial.parse_obj({"instrumentManufacturer": {"url": "http://x.org"}})
    x, y = (a, b) if order else (b, a)
    try:
        m = x.merge_with(y, allow_overwrite=ow)
    except ValueError as e:
        note(("merge of partials with disjoint nested fields raised", str(e).splitlines()[0][:120]))
        return False
    d = {k: v for k, v in json.loads(m.instrumentManufacturer.json()).items() if not k.startswith("@")}
    if d != {"name": "ACME", "url": "http://x.org"}:
        note(("nested object not merged recursively", d))
        return False
    # identity and round trip of the complete object
    E = Instr.Partial()
    if E.merge_with(a) != a or a.merge_with(E) != a:
        note(("empty partial is not an identity",))
        return False
    if a.from_partial() != obj:
        note(("round trip complete -> partial -> complete differs",))
        return False
    return True


def nested(versionless: bool, order: bool, ow: bool) -> bool:
    """
    post: _
    """
    v = (True if versionless else False, True if order else False, True if ow else False)
    reach()
    P_.sample({"versionless": v[0], "order": v[1], "ow": v[2]})
    return P_.native_call("vt.harness.c14_inst", "nested_native", v[0], v[1], v[2])


def installed_native(i):
    """i-th installed schema (widgets/dashboard excluded): its partial class can be created; the empty partial is an
    identity; a rich valid instance (where the harness knows one) survives complete -> partial -> complete."""
    from metador_core.plugins import schemas

    names = sorted({r.name for r in schemas.keys()} - {"core.dashboard"})
    if i >= len(names):
        return True
    name = names[i]
    S = schemas.get(name, schemas.resolve(name).version)
    try:
        P = S.Partial
        e = P()
    except Exception as ex:  # noqa
        note(("partial of an installed schema cannot be created", name, type(ex).__name__, str(ex)[:100]))
        return False
    if e.merge_with(P()) != e:
        note(("empty partial is not an identity", name))
        return False
    rich = {
        "core.file": dict(filename="a.txt", encodingFormat="text/plain", contentSize=3, sha256="ab" * 32,
                          dateCreated="2021-02-03T10:30:00", dateModified="2021-02-04"),
        "core.dir": dict(name="x", dateCreated="2021-02-03T10:30:00"),
        "core.org": dict(name="ACME", url="http://x.org"),
        "core.person": dict(name="N N", givenName="N", familyName="N"),
    }.get(name)
    if rich is not None:
        obj = S(**rich)
        back = P.to_partial(obj).from_partial()
        if back != obj:
            diff = [k for k in obj.__fields__ if getattr(obj, k) != getattr(back, k)]
            note(("complete -> partial -> complete differs", name, diff, [repr(getattr(obj, k)) + " -> " + repr(getattr(back, k)) for k in diff][:2]))
            return False
        viaj = P.parse_raw(obj.json()).from_partial() if hasattr(P, "parse_raw") else obj
        if viaj != obj:
            note(("complete -> JSON -> partial -> complete differs", name))
            return False
    return True


def installed(i: int) -> bool:
    """
    pre: 0 <= i < 16
    post: _
    """
    k = 0
    for c in range(16):
        if i == c:
            k = c
    reach()
    return P_.native_call("vt.harness.c14_inst", "installed_native", k)
