"""CrossHair robustness shims, applied in the worker process only (never in /repo).

See DESIGN.md section 2 and appendix. Import this module *before* anything from
metador_core; it also installs the numpy import shim that pint 0.21 needs.
"""
import sys

import numpy as np

if not hasattr(np, "cumproduct"):  # pint 0.21 on numpy 2.x
    np.cumproduct = np.cumprod

import crosshair.core as core
import crosshair.core_and_libs  # noqa: F401  (registers the library patches)
import crosshair.enforce as E
from crosshair.core import CrossHairValue
from crosshair.tracers import NoTracing

try:
    import wrapt
except ImportError:  # pragma: no cover
    wrapt = None

# 1. do not intercept construction of wrapt.ObjectProxy subclasses
_orig_trace_call = E.EnforcedConditions.trace_call


def _trace_call(self, frame, fn, binding_target):
    try:
        if wrapt is not None and isinstance(fn, type) and issubclass(fn, wrapt.ObjectProxy):
            return None
        # CrossHair replaces T(...) by T.__new__ + __init__ ("manual_constructor"), which
        # silently skips a metaclass __call__ (phantom types: validation; Enum: lookup).
        if isinstance(fn, type) and type(fn).__call__ is not type.__call__:
            return None
        return _orig_trace_call(self, frame, fn, binding_target)
    except ValueError:  # "wrapper has not been initialized"
        return None


E.EnforcedConditions.trace_call = _trace_call

# 2. isinstance for predicate / data-protocol classes
_orig_isinstance = core._PATCH_REGISTRATIONS[isinstance]


def _is_special(t):
    return isinstance(t, type) and (
        getattr(t, "_is_protocol", False) or type(t).__module__.startswith("phantom")
    )


def _isinstance(obj, types):
    with NoTracing():
        tys = types if type(types) is tuple else (types,)
        special = any(_is_special(t) for t in tys)
        symbolic = isinstance(obj, CrossHairValue)
    if not special:
        return _orig_isinstance(obj, types)
    for t in tys:
        with NoTracing():
            sp = _is_special(t)
        if sp:
            if symbolic:
                if type(t).__instancecheck__(t, obj):
                    return True
            else:
                with NoTracing():
                    r = isinstance(obj, t)
                if r:
                    return True
        elif _orig_isinstance(obj, t):
            return True
    return False


core._PATCH_REGISTRATIONS[isinstance] = _isinstance

# 3. bytes(obj) honours __bytes__
_orig_bytes = core._PATCH_REGISTRATIONS[bytes]


def _bytes(*a):
    if len(a) == 1:
        with NoTracing():
            meth = (
                None
                if isinstance(a[0], (CrossHairValue, bytes, bytearray, str, int))
                else getattr(type(a[0]), "__bytes__", None)
            )
        if meth is not None:
            return meth(a[0])
    return _orig_bytes(*a)


core._PATCH_REGISTRATIONS[bytes] = _bytes

# 6. never short-circuit callee bodies by their contracts
core.ShortCircuitingContext.make_interceptor = lambda self, original: original


def native(fn):
    """Decorator: run fn with CrossHair tracing suspended (a 'native island')."""
    import functools

    @functools.wraps(fn)
    def wrapper(*a, **kw):
        with NoTracing():
            return fn(*a, **kw)

    return wrapper


def patch_pydantic_copy():
    """4. pydantic.BaseModel.copy under NoTracing (shallow; never inspects values)."""
    import pydantic

    if getattr(pydantic.BaseModel.copy, "_vt_native", False):
        return
    orig = pydantic.BaseModel.copy

    def copy(self, **kw):
        with NoTracing():
            return orig(self, **kw)

    copy._vt_native = True
    pydantic.BaseModel.copy = copy
