"""sre_parse -> z3 regular expression translator (E4) and a tiny query runner.

The patterns are taken from the repo's own constants at run time; nothing is hand-copied.
Supported: literals, character classes (ranges, negation, \\d), greedy repeats, groups,
alternation, `^`/`$` anchors at the ends (dropped: all queries are full-match queries).
"""
import time

import z3

try:
    import re._constants as C
    import re._parser as sre_parse
except ImportError:  # pragma: no cover
    import sre_constants as C
    import sre_parse

_ALL = None


def allchar():
    return z3.AllChar(z3.ReSort(z3.StringSort()))


def anystr():
    return z3.Star(allchar())


def _cls_item(it):
    op, av = it
    if op is C.LITERAL:
        return z3.Re(chr(av))
    if op is C.RANGE:
        return z3.Range(chr(av[0]), chr(av[1]))
    if op is C.CATEGORY and av is C.CATEGORY_DIGIT:
        return z3.Range("0", "9")
    raise NotImplementedError(it)


def tr(p):
    parts = []
    for op, av in p:
        if op is C.LITERAL:
            parts.append(z3.Re(chr(av)))
        elif op is C.NOT_LITERAL:
            parts.append(z3.Intersect(allchar(), z3.Complement(z3.Re(chr(av)))))
        elif op is C.ANY:
            parts.append(z3.Intersect(allchar(), z3.Complement(z3.Re("\n"))))
        elif op is C.IN:
            neg = bool(av) and av[0][0] is C.NEGATE
            items = [_cls_item(i) for i in (av[1:] if neg else av)]
            u = items[0] if len(items) == 1 else z3.Union(*items)
            parts.append(z3.Intersect(allchar(), z3.Complement(u)) if neg else u)
        elif op in (C.MAX_REPEAT, C.MIN_REPEAT):
            lo, hi, sub = av
            r = tr(sub)
            if hi is C.MAXREPEAT:
                parts.append(z3.Star(r) if lo == 0 else z3.Plus(r) if lo == 1 else z3.Concat(*([r] * lo), z3.Star(r)))
            elif (lo, hi) == (0, 1):
                parts.append(z3.Option(r))
            else:
                parts.append(z3.Loop(r, lo, hi))
        elif op is C.SUBPATTERN:
            parts.append(tr(av[3]))
        elif op is C.BRANCH:
            parts.append(z3.Union(*[tr(b) for b in av[1]]))
        elif op is C.AT and av in (C.AT_BEGINNING, C.AT_END, C.AT_BEGINNING_STRING, C.AT_END_STRING):
            continue
        else:
            raise NotImplementedError(op)
    if not parts:
        return z3.Re("")
    return parts[0] if len(parts) == 1 else z3.Concat(*parts)


def rx(pat):
    return tr(sre_parse.parse(pat))


def rx_py(pat, func="match"):
    """Language of strings s for which re.<func>(pat, s) succeeds *consuming the whole string up to Python's
    end anchor*: for match/search a trailing `$` also matches just before one final newline
    (so `^[a-z]+$` accepts "abc\n"); `\Z` and fullmatch do not. Only patterns anchored at both ends."""
    p = list(sre_parse.parse(pat))
    if func == "fullmatch":
        return tr(p)  # the whole string has to be consumed; `$` cannot skip a final newline here
    if not p or p[-1][0] is not C.AT or p[-1][1] not in (C.AT_END, C.AT_END_STRING):
        raise NotImplementedError("pattern is not anchored at its end: " + pat)
    body = tr(p)
    if p[-1][1] is C.AT_END and func in ("match", "search"):
        return z3.Concat(body, z3.Option(z3.Re("\n")))
    return body


def canonical_decimal():
    return z3.Union(z3.Re("0"), z3.Concat(z3.Range("1", "9"), z3.Star(z3.Range("0", "9"))))


def query(name, constraints, expect="unsat", timeout_ms=60000, want=None):
    """Run one z3 query; returns a result record. `want`: list of z3 consts to report on sat."""
    s = z3.Solver()
    s.set("timeout", timeout_ms)
    s.add(*constraints)
    t0 = time.time()
    r = str(s.check())
    rec = {"name": name, "result": r, "expected": expect, "time_s": round(time.time() - t0, 3), "queries": 1,
           "states": 1}
    if r == "sat" and want:
        m = s.model()
        rec["model"] = {str(w): (m.eval(w, model_completion=True).as_string()
                                 if z3.is_string(w) else str(m.eval(w, model_completion=True))) for w in want}
    return rec
