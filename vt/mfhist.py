"""Manifest histories (C10 S4, C04 manifest clause): backend-neutral, public API only.

run(IH5MFRecord, IH5Manifest, IH5UBExtManifest, hashsum_file, P, opn, prefix, acts) plays a history of
commits, interrupted patches (close without commit = what a crash leaves behind), discards and
reopens on an IH5MFRecord and checks after every step that
 * the manifest of the last commit is available (`rec.manifest`) whenever the record is open,
 * manifest extensions persist until overridden (in memory and in the sidecar of every commit),
 * after every commit the sidecar hashes to manifest_hashsum / has manifest_uuid of its container,
 * (tamper=True) an edited sidecar of the newest *committed* container makes every open fail, also
   while an uncommitted patch sits on top of it.
Used by vt/harness/c10.py on the substrate (P = FakePath) and by the stage-2 script on real files.
"""

ACTS = ["commit", "commit_override", "interrupt_r+", "interrupt_a", "discard", "close_reopen_r", "interrupt_r", "refused_commit", "commit_override_empty"]


def run(IH5MFRecord, IH5Manifest, IH5UBExtManifest, hashsum_file, P, opn, prefix, acts, tamper=False, notes=None):
    notes = notes if notes is not None else []

    def bad(*a):
        notes.append(a)
        return False

    def side_of(rec, idx):
        return P(str(rec.ih5_files[idx]) + "mf.json")

    def check_commit(rec, label, want):
        ub = rec.ih5_meta[-1]
        ext = IH5UBExtManifest.get(ub)
        side = side_of(rec, -1)
        if ext is None or not side.is_file():
            return bad(label, "no manifest extension / sidecar after commit")
        if hashsum_file(side) != ext.manifest_hashsum:
            return bad(label, "sidecar does not hash to manifest_hashsum")
        mf = IH5Manifest.parse_file(side)
        if mf.manifest_uuid != ext.manifest_uuid:
            return bad(label, "sidecar uuid differs")
        if mf.manifest_exts != want:
            return bad(label, "extensions in the sidecar", mf.manifest_exts, "expected", want)
        return True

    def check_open(rec, label, want):
        try:
            got = rec.manifest.manifest_exts
        except ValueError as e:
            return bad(label, "manifest of the last commit not available", str(e)[:80])
        if got != want:
            return bad(label, "extensions", got, "expected", want)
        # the manifest object is the one linked by the newest committed container
        metas = rec.ih5_meta
        ub = metas[-1] if metas[-1].hdf5_hashsum is not None or len(metas) == 1 else metas[-2]
        ext = IH5UBExtManifest.get(ub)
        if ext is not None and ext.manifest_uuid != rec.manifest.manifest_uuid:
            return bad(label, "rec.manifest is not the manifest of the newest committed container")
        return True

    r = IH5MFRecord(prefix, "w")
    r["a"] = 1
    want = {"keep": 1}
    r.commit_patch(manifest_exts=dict(want))
    if not check_commit(r, "base", want):
        return False
    n = 0
    for i, act in enumerate(acts):
        label = "step %d %s" % (i, act)
        n += 1
        if r.mode == "r" and act != "close_reopen_r":
            r.close()
            r = IH5MFRecord(prefix, "r+")
            if not check_open(r, label + " (reopened r+)", want):
                return False
        writable = r.mode == "r+" and r._has_writable
        if act in ("commit", "commit_override", "commit_override_empty"):
            if not writable:
                r.create_patch()
            r["w%d" % n] = n
            if act == "commit":
                r.commit_patch()
            else:
                # (an explicitly given empty dict overrides like any other value; only None inherits)
                want = {"o": n} if act == "commit_override" else {}
                r.commit_patch(manifest_exts=dict(want))
            if not check_commit(r, label, want):
                return False
        elif act.startswith("interrupt_"):
            if not writable:
                r.create_patch()
            r["u%d" % n] = n
            r.close(commit=False)
            if tamper:
                # the sidecar of the newest committed container is edited while the interrupted patch is on disk
                files = sorted(IH5MFRecord.find_files(P(prefix)), key=lambda f: (len(str(f)), str(f)))
                side = P(str(files[-2]) + "mf.json")
                with opn(side, "rb") as f:
                    data = f.read()
                with opn(side, "wb") as f:
                    f.write(data.replace(b'"manifest_exts"', b'"manifest_exts" '))
                import gc
                for mode in ("r", "r+", "a"):
                    try:
                        x = IH5MFRecord(prefix, mode)
                    except ValueError:
                        x = None
                    if x is not None:
                        x.close(commit=False)
                        return bad(label, "edited manifest of the newest committed container accepted in mode", mode)
                    gc.collect()  # (real h5py: a refused open leaves its read-only handles to the garbage collector)
                with opn(side, "wb") as f:
                    f.write(data)
            r = IH5MFRecord(prefix, act.split("_")[1])
            if not check_open(r, label, want):
                return False
            if r.mode == "r":
                r.close()
                r = IH5MFRecord(prefix, "r+")
                if not check_open(r, label + " (r+)", want):
                    return False
        elif act == "refused_commit":
            # a commit that is refused (nothing is pending) leaves the manifest of the last commit in place
            if writable:
                r.commit_patch()
                if not check_commit(r, label + " (first)", want):
                    return False
            try:
                r.commit_patch(manifest_exts={"bad": n})
                return bad(label, "commit with nothing pending was accepted")
            except ValueError:
                pass
        elif act == "discard":
            if writable and len(r.ih5_files) > 1:
                r.discard_patch()
        elif act == "close_reopen_r":
            was = writable
            r.close()  # commits a pending patch (extensions inherited)
            r = IH5MFRecord(prefix, "r")
            if was and not check_commit(r, label, want):
                return False
        if not check_open(r, label, want):
            return False
    if r.mode == "r+" and r._has_writable:
        r.commit_patch()
        if not check_commit(r, "final commit", want):
            return False
    r.close()
    r = IH5MFRecord(prefix, "r")
    ok = check_open(r, "final reopen", want)
    r.close()
    return ok


SCRIPT = """# replay of a manifest history on real h5py files (temp directory)
import numpy as np
np.cumproduct = np.cumprod
import sys, tempfile, shutil
from pathlib import Path
sys.path.insert(0, "/verif")
from vt import mfhist
from metador_core.ih5.manifest import IH5Manifest, IH5MFRecord, IH5UBExtManifest
from metador_core.ih5.record import hashsum_file
d = tempfile.mkdtemp()
notes = []
try:
    ok = mfhist.run(IH5MFRecord, IH5Manifest, IH5UBExtManifest, hashsum_file, Path, open, d + "/rec", %(acts)r, %(tamper)r, notes)
finally:
    shutil.rmtree(d, ignore_errors=True)
for n in notes:
    print("MISMATCH:", n)
print("property holds on this history:", ok)
sys.exit(0 if ok else 1)
"""
