"""Regenerate seeded/SUMMARY.md from the meta.json files."""
import json
from pathlib import Path

HERE = Path(__file__).resolve().parent.parent
rows = []
for d in sorted((HERE / "seeded").iterdir()):
    m = d / "meta.json"
    if m.exists():
        x = json.loads(m.read_text())
        need = " ".join(x.get("needs", "").split())[:260]
        rows.append(f"| {x['label']} | {x['property']} | {'yes' if x.get('detected') else 'NO'} | {x.get('violation_lines')} | "
                    f"{x.get('demo_exit_clean')}/{x.get('demo_exit_seeded')} | {x.get('pinned_tests_with_patch', '')[:40]} | {need} |")
out = ["# Seeded changes and detection by the quick checks", "",
       "| label | property | detected | VIOLATION lines | demo exit clean/seeded | pinned tests with patch | what it needs to manifest |",
       "|---|---|---|---|---|---|---|"] + rows
(HERE / "seeded" / "SUMMARY.md").write_text("\n".join(out) + "\n")
print("\n".join(out))
