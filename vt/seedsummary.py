"""Regenerate seeded/SUMMARY.md from the meta.json files."""
import json
from pathlib import Path

HERE = Path(__file__).resolve().parent.parent
rows = []
for d in sorted((HERE / "seeded").iterdir()):
    m = d / "meta.json"
    if m.exists():
        x = json.loads(m.read_text())
        need = " ".join(x.get("needs", "").split())[:260]
        rows.append(f"| {x['label']} | {x['property']} | {'yes' if x.get('detected') else 'NO'} | {x.get('violation_lines')} | "
                    f"{x.get('demo_exit_clean')}/{x.get('demo_exit_seeded')} | {x.get('pinned_tests_with_patch', '')[:40]} | {need} |")
out = ["# Seeded changes and detection by the quick checks", "",
       "| label | property | detected | VIOLATION lines | demo exit clean/seeded | pinned tests with patch | what it needs to manifest |",
       "|---|---|---|---|---|---|---|"] + rows
(HERE / "seeded" / "SUMMARY.md").write_text("\n".join(out) + "\n")

# the table of DESIGN.md section 11 (between the SEEDTABLE markers)
DEFAULT = "detected by the quick check as it stood when the seed was evaluated"
trows, n, late = [], 0, 0
for d in sorted((HERE / "seeded").iterdir()):
    m = d / "meta.json"
    if m.exists():
        x = json.loads(m.read_text())
        n += 1
        h = x.get("history", DEFAULT)
        late += h != DEFAULT
        need = " ".join(x.get("needs", "").split())[:230].replace("|", "\\|")
        trows.append(f"| {x['label']} | `./check {x['property']}` | {need} | {h if x.get('detected') else 'NOT DETECTED: ' + h} |")
table = ["| seed | caught by | change / what it needs | history |", "|---|---|---|---|"] + trows
dp = HERE / "DESIGN.md"
ds = dp.read_text()
B, E = "<!-- SEEDTABLE-BEGIN -->", "<!-- SEEDTABLE-END -->"
if B in ds and E in ds:
    ds = ds[:ds.index(B) + len(B)] + "\n" + "\n".join(table) + "\n" + ds[ds.index(E):]
    dp.write_text(ds)
print(f"{n} seeds, {sum(1 for r in rows if '| yes |' in r)} detected, {late} only after strengthening")
