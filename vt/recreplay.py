"""Stage-2 replay of record-level counterexamples on the real libraries (real h5py, real files).

The record harness module is re-run natively in a fresh interpreter *without* the substrate:
`vt.harness.rec_real` provides the same scenario functions against a temp directory."""
import json
import os
import subprocess

from vt.runner import HERE, PY


def confirm(part, kwargs, native):
    script = make_script(part, kwargs)
    env = dict(os.environ)
    env["PYTHONPATH"] = str(HERE) + ":" + env.get("VT_REPO", "/repo") + "/src"
    p = subprocess.run([PY, "-c", script], capture_output=True, text=True, timeout=600, env=env, cwd="/")
    out = (p.stdout + p.stderr)[-2500:]
    if p.returncode == 0:
        return {"confirmed": False, "what": "does not reproduce on real h5py files: " + out[-400:], "stage2": out}
    if p.returncode != 1:
        return {"harness_error": "real-library replay crashed: " + out[-1200:]}
    return {"confirmed": True, "key": f"{part.func}:{json.dumps(part.sel, sort_keys=True)}:{json.dumps(kwargs, sort_keys=True, default=repr)}",
            "what": f"{part.func} sel={part.sel} {json.dumps(kwargs, default=repr)}: " + " | ".join(
                l for l in out.splitlines() if l.startswith("MISMATCH"))[:500],
            "script": script, "stage2": out}


def make_script(part, kwargs):
    return f'''# replay of a record-level counterexample on real h5py files (temp directory)
import sys
sys.path.insert(0, {str(HERE)!r})
import vt.part as P
P.NATIVE = True
P.SEL.update({json.dumps(part.sel)})
P.SEL["realfs"] = 1
import vt.harness.rec_real as H
ok = H.run({part.func!r}, {kwargs!r})
print("property holds on this scenario:", ok)
sys.exit(0 if ok else 1)
'''
