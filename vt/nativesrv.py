"""Helper process: runs harness functions natively (no CrossHair tracer in this interpreter).

CrossHair's tracer (sys.monitoring instruction events) slows code down ~10x even while tracing is
suspended. Harnesses whose inputs are fully concrete after the solver-driven realisation step
hand the concrete case to this server and get the verdict back; the exploration (which cases
exist, feasibility, counterexample) stays with CrossHair/z3 in the parent.

protocol: one JSON list per line on stdin: [func, args]; answer: {"ret": ..., "notes": [...]}
"""
import importlib
import json
import sys
import traceback


def main():
    module, sel = sys.argv[1], json.loads(sys.argv[2])
    import vt.part as P

    P.NATIVE = True
    P.SEL.update(sel)
    out = sys.stdout
    sys.stdout = sys.stderr  # keep the protocol channel clean
    mod = importlib.import_module(module)
    out.write("READY\n")
    out.flush()
    for line in sys.stdin:
        func, args = json.loads(line)
        del P.NOTES[:]
        try:
            ret = getattr(mod, func)(*args)
            res = {"ret": ret, "notes": list(P.NOTES)}
        except Exception as e:  # noqa
            res = {"ret": None, "exc": type(e).__name__ + ": " + str(e)[:300], "tb": traceback.format_exc()[-1500:],
                   "notes": list(P.NOTES)}
        out.write(json.dumps(res, default=repr) + "\n")
        out.flush()


if __name__ == "__main__":
    main()
