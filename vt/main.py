"""./check <ID> [--tier quick|thorough] [--replay FILE]"""
from __future__ import annotations

import argparse
import importlib
import json
import os
import subprocess
import sys
import time

from vt.runner import EXIT_HARNESS, EXIT_OK, EXIT_VIOLATION, HERE, PY, Part, Report, replay_native, run_parts


def log(*a):
    print(*a, file=sys.stderr, flush=True)


def do_replay(prop, path):
    d = json.loads(open(path).read())
    part = Part(d["module"], d["func"], d.get("sel", {}), pure_pydantic=d.get("pure_pydantic", False))
    r = replay_native(part, repr(d["kwargs"]))
    rp = r.get("replay") or {}
    print("native harness replay:", json.dumps(rp)[:1500])
    bad = not rp.get("ok", False)
    script = os.path.splitext(path)[0] + ".py"
    if os.path.exists(script):
        env = dict(os.environ)
        env["PYTHONPATH"] = env.get("VT_REPO", "/repo") + "/src"
        p = subprocess.run([PY, script], capture_output=True, text=True, cwd=str(HERE), env=env)
        print("public-API script rc=%d\n%s%s" % (p.returncode, p.stdout[-3000:], p.stderr[-3000:]))
        bad = p.returncode != 0
    if bad:
        print(f"VIOLATION property={prop} replay={path}")
        return EXIT_VIOLATION
    print("replay did not reproduce")
    return EXIT_OK


def main():
    ap = argparse.ArgumentParser()
    ap.add_argument("prop")
    ap.add_argument("--tier", default=os.environ.get("VERIF_TIER", "quick"), choices=["quick", "thorough"])
    ap.add_argument("--replay", default=None)
    ap.add_argument("--only", default=None, help="substring filter on partition labels (debugging)")
    a = ap.parse_args()
    if a.only and not os.environ.get("VT_OUT"):
        os.environ["VT_OUT"] = str(HERE / "out" / "partial")  # debugging runs never overwrite the evidence file
    prop = a.prop.upper()
    os.environ["VT_TIER"] = a.tier
    if a.replay:
        sys.exit(do_replay(prop, a.replay))
    seed = int(os.environ.get("VERIF_SEED", "0") or 0)
    mod = importlib.import_module("vt.props." + prop.lower())
    meta = dict(mod.META)
    rep = Report(prop, a.tier, seed, meta)

    # 1. native pre-checks (stub fidelity, oracle sanity) -- never decide the property
    for (m, f, sel) in getattr(mod, "prechecks", lambda t: [])(a.tier):
        part = Part(m, f, dict(sel, seed=seed), pure_pydantic=sel.get("pure_pydantic", False))
        r = replay_native(part, "{}")
        rp = r.get("replay") or {}
        rec = {"name": part.label, "ok": bool(rp.get("ok")), "detail": (rp.get("exc") or rp.get("returned") or r.get("error"))}
        try:
            rec["cases"] = int(rp.get("returned"))
        except Exception:  # noqa
            rec["cases"] = 1 if rec["ok"] else 0
        rep.native.append(rec)
        log("  [precheck %s] %s %s" % ("ok" if rec["ok"] else "FAILED", part.label, str(rec["detail"])[:300]))
        if not rec["ok"]:
            rep.harness_errors.append(f"precheck {part.label} failed: {str(rec['detail'])[:500]} {rp.get('tb', '')[-800:]}")

    if not rep.harness_errors:
        # 2. direct SMT queries (E4)
        if hasattr(mod, "smt"):
            for s in mod.smt(a.tier, rep):
                rep.smt_results.append(s)
                log("  [smt %s] %s %.2fs" % (s.get("result"), s.get("name"), s.get("time_s", 0)))
        # 3. symbolic execution partitions (E1-E3)
        parts = mod.plan(a.tier, seed)
        if a.only:
            parts = [p for p in parts if a.only in p.label]
        log(f"{prop}: {len(parts)} partitions, tier={a.tier}")
        results = run_parts(parts, log=log)
        rep.part_results = results
        confirm = getattr(mod, "confirm", None)
        seen_keys = set()
        import concurrent.futures as cf

        def triage(pr):
            p, r = pr
            try:
                rep.handle_counterexample(p, r, confirm)
            except Exception as e:  # noqa
                import traceback
                rep.harness_errors.append(f"{p.label}: counterexample triage crashed: {type(e).__name__}: {e} "
                                          + traceback.format_exc()[-600:])

        ces = [(p, r) for p, r in zip(parts, results) if r.get("status") == "counterexample"]
        # props whose confirm() works in-process on shared module state (history search) are triaged serially
        workers = 1 if getattr(mod, "SERIAL_TRIAGE", False) else 8
        with cf.ThreadPoolExecutor(max_workers=workers) as ex:
            list(ex.map(triage, ces))
        if hasattr(mod, "samples"):
            rep.samples = mod.samples(parts, results)
    sys.exit(rep.finish())


if __name__ == "__main__":
    main()
