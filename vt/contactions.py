"""Action alphabet of the container-level sequence harness (pure data, importable anywhere)."""
ACTIONS = [
    ("set", "d", "F"), ("set", "d", "I"), ("set", "g", "D"), ("set", "g/e", "F"), ("set", "g/e", "I"),
    ("del", "d", "F"), ("del", "d", "I"), ("del", "g/e", "I"), ("del", "g", "D"), ("set2", "d", "F"),
    ("rm", "d"), ("rm", "g"), ("cp", "d", "d2"), ("cp", "g", "g2"), ("mv", "d", "g/m"), ("mv", "g", "h"),
    ("cp_nometa", "d", "d3"), ("cp_nometa", "g", "g3"), ("reopen",), ("boundary",), ("set_unknown", "d"), ("keep", "g/e", "F"),
    ("rm", "g/e"), ("mk", "n"), ("set", "g", "F"), ("del", "g/e", "F"),
    ("cp_obj", "g", "/", "c"), ("cp_obj", "d", "g", "c"), ("rm_root",),
    ("cp_src_obj", "g", "g4"), ("sub_cp", "g", "e", "e2"), ("cp_root", "bk"),
    ("set", "d", "B1"), ("set", "g/e", "B2"), ("del", "g/e", "B2"), ("del", "d", "B1"), ("set", "g", "A"),
]


def mirror_sels(drivers=("h5", "ih5")):
    """Selectors of the extra partitions that start from the mirrored universe (g/g/e2 exists, g/e2 free)."""
    firsts = [ACTIONS.index(("sub_cp", "g", "e", "e2")), ACTIONS.index(("cp", "g", "g2")), ACTIONS.index(("mv", "g", "h"))]
    return [{"drv": d, "k": 2, "first": f, "init": 2} for d in drivers for f in firsts]
