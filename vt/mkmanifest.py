"""Regenerate MANIFEST.json from the table below (run by hand after adding a check)."""
import json
from pathlib import Path

HERE = Path(__file__).resolve().parent.parent
TXT = "bounded symbolic execution of the real functions (CrossHair + z3); the solver's verdict covers every value of the symbolic inputs inside the stated bounds; nothing is claimed outside them; un-exhausted partitions are reported as unexplored remainder"

CHECKS = {
    "C01": ("CrossHair/z3 exploration of symbolic IH5 container stacks under the real ih5/overlay.py on an in-memory HDF5 substrate: read == fold(stack); one write step == same step on the materialised single container == plain file; Inv preserved (induction over histories); counterexamples replayed as public-API histories on real h5py",
            "trusted: in-memory h5py substrate (conformance-tested against real h5py on every run); reference fold written from PATCH_THEORY.md; representation invariant Inv; kinds enumerated by solver-driven realisation, real code then runs on concrete state; bounds: <=3 containers (thorough 4), universes of <=3 paths + 1 attribute, 14 operations x 6 path arguments",
            "3.3, 4/C01"),
    "C02": ("CrossHair/z3 exploration of API histories after a commit (18 actions, sequences of 3) on the real IH5Record/IH5MFRecord over an in-memory file system with a byte-level frame oracle on every committed container and manifest sidecar, plus the one-write-step obligation of the overlay harness (writes land in the newest container only)",
            "trusted: substrate (conformance-tested); abstract payload bytes change iff an HDF5-level write happened; action choices realised by solver-driven branching, real code then runs on concrete state; counterexamples replayed on real h5py files",
            "4/C02"),
    "C03": ("CrossHair/z3 symbolic execution of the real IH5Record/IH5MFRecord __init__ mode dispatch, _open, _create, discard_patch, find_files, list_records with a symbolic mode string (any string of length <=2), 6 on-disk situations, every file order, prefix-related record names, against the h5py.File mode table (read-only enforcement also through node.file handles; discard with nothing pending); record-name validity as a direct z3 regex query on the pattern and re function the real code uses, with Python's anchor semantics",
            "trusted: substrate (conformance-tested incl. file modes/user blocks); mode table written from the h5py.File documentation; bounds: mode strings <=2 chars, <=3 containers, names <=2 chars over {a,b,-,1}; counterexamples replayed on real h5py files",
            "4/C03"),
    "C04": ("CrossHair/z3 symbolic execution of the real IH5Record._open/_check_ublock (and IH5MFRecord overrides) on stand-in user blocks with symbolic record ids, patch indices, uuids and predecessor links (1..3 files, any order, every hash-verdict combination) against an independently written coherence predicate; plus manifest histories through the public API (edited sidecar of the newest committed container refused, also under an uncommitted patch)",
            "trusted: SHA-256 detects payload modification (hash oracle is a per-file verdict); stand-in user blocks; counterexamples replayed with real user blocks on real h5py files",
            "4/C04"),
    "C05": ("CrossHair/z3 exploration of symbolic container stacks written as records (real user blocks) on the in-memory file system and merged by the real merge_files/h5_copy_from_to: merged view == source view == fold(stack); chain identity; source unchanged; follow-up patch applies alike; counterexamples replayed as public-API histories on real h5py",
            "trusted: substrate (conformance-tested), fold, Inv; kinds enumerated by solver-driven realisation; bounds: 2 containers over {a,a/x,a@k}, 3 over {a,a/x}; 8 follow-up operations; IH5Record + IH5MFRecord",
            "4/C05"),
    "C10": ("CrossHair/z3 exploration of symbolic container stacks written as IH5MFRecord records on the in-memory file system through the real skeleton.py/manifest.py: stub skeleton == real, no data in the stub, merge refused, stub-made patch == direct update on the real record, manifest sidecar == container (hash, uuid, skeleton) after every commit, extensions persist; counterexamples replayed as public-API histories on real h5py",
            "trusted: substrate (conformance-tested), fold/Inv; kinds enumerated by solver-driven realisation; bounds: 2 containers over {a,a/x,a@k}, 12 existence-based updates; manifest histories of 3 steps over 8 actions (commit, override, interrupted patch reopened r+/a/r, discard, close+reopen, refused commit) x tamper",
            "4/C10"),
    "C11": ("CrossHair/z3 exploration with a symbolic crash point: torn user-block write at every cut through the real IH5UserBlock.load/_open, and simulated process death at every mutating file-system primitive during create/fill/commit of a patch through the real IH5Record/IH5MFRecord; byte identity of committed files + three-way outcome oracle",
            "trusted: substrate with crash injection; prefix model of the user-block write; SHA-256 idealised; kills inside HDF5 library writes and fsync/reordering effects are outside; torn-write counterexamples replayed on real h5py files",
            "4/C11"),
    "C06": ("CrossHair/z3 exploration of all bounded sequences of container actions (symbolic action choices realised by solver-driven branching) on the real MetadorContainer/MetadorMeta/TOCLinks/TOCSchemas/TOCPackages stack over the in-memory substrate, both drivers, with patch boundaries and reopen points; after every action raw-tree bookkeeping invariants + reference model; counterexamples replayed on real h5py files",
            "trusted: substrate (conformance-tested); the real code runs natively once choices are concrete (the TOC stack cannot be traced by CrossHair: DESIGN 9); bounds: 37 actions (incl. a harness-registered sibling schema family vt.aa <- vt.bone, vt.btwo), sequences of 3 (plain driver) / 2 (IH5), three installed schemas, start state d, g, g/e",
            "9 (deviation), 4/C06"),
    "C07": ("CrossHair/z3: symbolic schema versions through the real MetadorMeta.query/_get_raw + TOCSchemas.versions/children + PluginRef.supports against a brute-force specification; plus bounded container action sequences (C06 harness) with a reference model of attached metadata (equality of returned objects, parent views, one per schema, exact queries)",
            "trusted: stand-in node/TOCSchemas for the kernel; substrate for sequences; bounds: versions in {0,1}^2 per ref, sequences of 2 actions on both drivers",
            "4/C07, 9"),
    "C20": ("CrossHair/z3 exploration of bounded container action sequences (C06 harness) with the self-description oracle: embedded JSON Schema / parent chain / provider == plugin system, every stored object validates against the embedded schema, same after reopen",
            "trusted: as C06; the installed schemas core.file <- core.imagefile, core.dir and a harness-registered family with two siblings under one parent (vt/testplugins); pydantic schema generation and jsonschema validation are third party",
            "9"),
    "C08": ("CrossHair/z3 symbolic execution of the real MetadorGroup wrapper methods (path guard on every protocol method, enumerated at run time), listing filters and meta-path algebra with structured symbolic reserved paths/names around a recording raw group",
            "trusted: CrossHair/z3 string theory; recording raw mocks; clause (d) (bookkeeping never disturbs user data) is outside (C06); bounds: free parts of paths <=2 chars, 2 symbolic children per listing, canonical paths <=5 chars",
            "4/C08"),
    "C15": ("CrossHair/z3 symbolic execution of the real ACL code (MetadorNode/Group/Dataset, WrappedAttributeManager, MetadorMeta guards) with the three flags as symbolic booleans: one-step induction over 22 navigation primitives (parent/file applied to every derived node), 22 mutators, 14 readers, restrict() monotonicity; plus a navigation closure on the real container stack (real query/metadata, both drivers, start node and flags solver-chosen, chains <=3, every mutator/reader on every node reached, children restricted further)",
            "trusted: recording raw mocks instead of h5py nodes for the one-step harnesses, in-memory substrate for the closure (counterexamples replayed on real h5py files); induction argument (I1)+(I2)+(I3) for chains of any length; soft restrictions (private attributes) outside",
            "4/C15"),
    "C09": ("same (W) obligation as C01 with the plain substrate file as third party: every raw protocol operation succeeds/fails alike and leaves the same tree for any patch-boundary placement; protocol members enumerated from util/types.py",
            "trusted: as C01; container level: action sequences of 2 (thorough 3) through both drivers against one reference model, file-level members declared as supported exercised on both; exception classes not compared",
            "4/C09"),
    # id: (technique, level_note, design_ref)
    "C16": ("CrossHair symbolic execution of PluginRef/PluginGroup/register_in_group/ep-name codec + z3 regex-inclusion lemmas generated from the repo's regex constants (incl. canonical version components); marker routes through names, tuples, refs and handles as keys, for the schema, harvester and packer groups",
            "trusted: CrossHair 0.0.110 + z3 5.1 models of CPython str/int/tuple; launcher shims (DESIGN 2); PluginRef.construct stand-ins; _load_plugin stubbed; bounds: strings<=2, <=3 registrations, versions 0..1 (0..2 thorough), codec components 0..999",
            "4/C16"),
    "C14": ("CrossHair symbolic execution of the real PartialModel merge code (symbolic field values, unbounded ints) against a reference merge; pure-Python pydantic build so values stay symbolic through validation; plus installed schemas (nested objects from versioned / version-less plugin handles, native after realisation)",
            "trusted: CrossHair/z3 models of list/set/dict/str/int; pure-Python pydantic 1.10 sources == compiled build; construct() stand-ins; repr() in partial.py stubbed (message formatting); bounds: strings<=2, lists<=2, sets<=2, 2-3 operands, model family defined in the harness",
            "4/C14"),
    "C18": ("CrossHair symbolic execution of the real DiffNode.compare/nodes/status/_type and DirDiff.get over symbolic directory-tree pairs against a changed-path-set oracle and an ordered-replay oracle",
            "trusted: CrossHair/z3 models of dict/set/str/pathlib; stand-in node class re-using DiffNode's real functions (cross-checked natively; a subset of partitions runs the real pydantic model on the pure-Python pydantic build); bounds: universe a,b,a/x,a/y (thorough: +a/x/p,b/x), leaf strings length 1 (thorough 2)",
            "4/C18"),
    "C19": ("CrossHair symbolic execution of the real hashsum chunk loop (symbolic content + short-read schedule, recording hash) and dir_hashsums/rel_symlink over an in-memory directory with symbolic entry kinds, contents, link targets and visiting order; counterexamples replayed on a real temp directory with real hashlib",
            "trusted: SHA-256 injectivity (recording hash stands in); in-memory directory stub (validated natively against a real directory); link chains followed like pathlib (cycles outside); bounds: <=3 entries (a,d,d/x) or 2x2 entries, 3 contents, 5 link targets, content <=4 bytes",
            "4/C19"),
}

NA = {
    "C12": "serialisation round trips run inside compiled pydantic / C json / YAML / pint / isodate; symbolic values are realised at those boundaries, leaving only sampling",
    "C13": "quantifies over type objects and third-party validator/subtype semantics (pydantic, runtype); no symbolic-input dimension in repo code",
    "C17": "byte fidelity lives in numpy/h5py/hashlib/libmagic (C, I/O) and cannot be encoded; the repo-side DEL-marker rule is exercised inside C01",
}


def main():
    props = [json.loads(l)["id"] for l in (HERE / "properties.jsonl").read_text().splitlines() if l.strip()]
    checks = []
    for pid in props:
        if pid in CHECKS:
            tech, note, ref = CHECKS[pid]
            checks.append({
                "property_id": pid,
                "quick_cmd": f"./check {pid} --tier quick",
                "thorough_cmd": f"./check {pid} --tier thorough",
                "evidence_file": f"/verif/evidence/{pid}.json",
                "replay_cmd_template": f"./check {pid} --replay {{path}}",
                "engine": "vt",
                "level_claimed": {"category": "model_checking", "text": TXT, "design_ref": "DESIGN.md " + ref},
                "level_note": note,
                "technique": tech,
            })
    pending = [p for p in props if p not in CHECKS and p not in NA]
    na = [{"property_id": p, "reason": NA[p]} for p in props if p in NA]
    na += [{"property_id": p, "reason": "check not built yet (planned in DESIGN.md section 4); not claimed"} for p in pending]
    m = {
        "version": 1,
        "setup_cmd": "./setup.sh",
        "hooks": {"guard": "METADOR_CORE_VERIF", "enable": "no hooks in /repo: all substitution happens from outside (sys.modules['h5py'], module globals, class attributes inside the harness process)",
                  "baseline_off_cmd": "cd /repo && /venv/bin/python -m pytest -ra -q -p no:cacheprovider --timeout=900 --continue-on-collection-errors",
                  "source_commits": [], "add_only": True},
        "engines": [{"name": "vt", "path": "/verif/vt", "serves_properties": sorted(CHECKS),
                     "kind_free_text": "CrossHair 0.0.110 (symbolic execution of CPython bytecode with z3 5.1) driving the unmodified functions under /repo/src, partitioned over 16 worker processes; plus direct z3 regex/LIA queries built from the repo's constants"}],
        "checks": checks,
        "not_applicable": na,
        "notes": "exit codes: 0 held on everything explored, 1 violation (replayed through the public API), 2 harness error (stub infidelity / non-reproducing counterexample / vacuous partition)",
    }
    (HERE / "MANIFEST.json").write_text(json.dumps(m, indent=1) + "\n")
    print("checks:", [c["property_id"] for c in checks], "n/a:", [n["property_id"] for n in na])


if __name__ == "__main__":
    main()
